// C05 — tobytes/tobits of a value are exactly the input bits of its range.
//
// Trees come from the corpus (unmodified and mutated/truncated), generated
// decoder programs (lib/treegen) and generated gzip/zip/tar containers; the
// top value is handed to fq's jq layer (lib/treeq) and every selected value is
// converted with tobits, tobytes, ._bits, ._bytes, tobits|tobytes,
// tobytes|tobits, tobitsrange, tobytesrange, written raw, and rendered with
// every bits_format.  The oracle slices the expected bits out of the buffer by
// its own arithmetic: the top buffer is the input file, a nested buffer is
// read once with one aligned bulk read (and, for generated containers,
// compared with the payload the writer stored).
package c05

import (
	"crypto/md5"
	"encoding/base64"
	"encoding/hex"
	"encoding/json"
	"fmt"
	"os"
	"sort"
	"strconv"
	"testing"

	"github.com/wader/fq/pkg/bitio"
	"github.com/wader/fq/pkg/ranges"
	"github.com/wader/fq/pkg/scalar"
	"github.com/wader/fq/verif/lib/harness"
	"github.com/wader/fq/verif/lib/treegen"
	"github.com/wader/fq/verif/lib/treeq"
)

func TestMain(m *testing.M) {
	if treegen.IsWorker() {
		treegen.ServeWorker(checkTreeCase)
		os.Exit(0)
	}
	harness.Describe(
		"trees: every corpus (file, format) pair unmodified; rapid-drawn mutants of them (truncations favoured; decoded in a worker process); rapid-generated decoder programs over the public decode API (unaligned fields, nested buffers with known content, partial trees); rapid-generated gzip/zip/tar(.gz) files whose payloads the harness knows; CLI runs `fq -d F 'getpath(P)|tobytes' file` / tobits with raw stdout. Values: all of a tree (thorough; quick: the root, nested buffer roots, then up to 200 chosen by a hash of the case with quotas for values in nested buffers, unaligned values, gaps and raw leaves). Per value: tobits, tobytes, ._bits, ._bytes, tobits|tobytes, tobytes|tobits, tobitsrange, tobytesrange read back through their bit reader and through raw Display; every bits_format on tobits/tobytes of up to 24 values, on every raw leaf through tovalue of the whole tree, and through the public tovalue({bits_format:f}). One evaluation = one tree; labels starting with `values:` count values. Non-trivial: at least one checked value is not byte aligned, lives in a nested buffer or is a gap.",
		"synthetic values (FieldValue*: no bits behind them) are not asserted: fq refuses to convert them and the statement speaks about values with a range in a buffer",
		"a value whose reported range does not lie inside its buffer has no defined expected bits; fq's answer (an error) is reported under the signature value-range-outside-buffer (root cause listed for C03)",
		"._bits/._bytes are checked for the bits of their range only (their raw output is not asserted: the statement pads only the tobytes form)",
		"the size prefix of bits_format=snippet is compared in fq's bytes[.bits] notation in base 10 (the default sizebase)",
		"a Go panic or process death of a decoder on a mutated input is C06's subject: the case is counted as skipped",
	)
	harness.Main(m, "C05")
}

// ---------------------------------------------------------------------------
// reference bit arithmetic (own code; cross-checked against a bit-by-bit
// formulation in TestSelf)

// sliceBits returns bits [start, start+n) of buf, left aligned and zero
// padded at the end.
func sliceBits(buf []byte, start, n int64) []byte {
	out := make([]byte, (n+7)/8)
	if n == 0 {
		return out
	}
	bi := start >> 3
	sh := uint(start & 7)
	if sh == 0 {
		copy(out, buf[bi:bi+int64(len(out))])
	} else {
		for i := range out {
			j := bi + int64(i)
			b := buf[j] << sh
			if j+1 < int64(len(buf)) {
				b |= buf[j+1] >> (8 - sh)
			}
			out[i] = b
		}
	}
	if r := uint(n & 7); r != 0 {
		out[len(out)-1] &= 0xff << (8 - r)
	}
	return out
}

// padLeft turns n left-aligned bits into the byte form: (8-n%8)%8 zero bits
// in front, so that the last bit of the value is the last bit of the result.
func padLeft(b []byte, n int64) []byte {
	p := uint((8 - n%8) % 8)
	if p == 0 {
		return b
	}
	out := make([]byte, len(b))
	for i := range b {
		out[i] = b[i] >> p
		if i > 0 {
			out[i] |= b[i-1] << (8 - p)
		}
	}
	return out
}

func ceil8(n int64) int64 { return (n + 7) / 8 * 8 }

func eqBytes(a, b []byte) bool { return string(a) == string(b) }

func short(b []byte) string {
	if len(b) > 24 {
		return fmt.Sprintf("%x…(%d bytes)", b[:24], len(b))
	}
	return fmt.Sprintf("%x", b)
}

var formats = []string{"string", "hex", "base64", "byte_array", "md5", "truncate", "snippet"}

// render is the expected rendering of nBits bits held left aligned in r (so r
// is already the zero padded byte form fq's renderers see).
func render(f string, r []byte, nBits int64) any {
	switch f {
	case "string":
		return string(r)
	case "hex":
		return hex.EncodeToString(r)
	case "base64":
		return base64.StdEncoding.EncodeToString(r)
	case "byte_array":
		return r
	case "md5":
		s := md5.Sum(r)
		return hex.EncodeToString(s[:])
	case "truncate":
		if len(r) > 1024 {
			return string(r[:1024])
		}
		return string(r)
	case "snippet":
		h := r
		if len(h) > 256 {
			h = h[:256]
		}
		size := strconv.FormatInt(nBits/8, 10)
		if nBits%8 != 0 {
			size += "." + strconv.FormatInt(nBits%8, 10)
		}
		return "<" + size + ">" + base64.StdEncoding.EncodeToString(h)
	}
	return nil
}

func asInt(v any) (int64, bool) {
	switch x := v.(type) {
	case int:
		return int64(x), true
	case int64:
		return x, true
	case float64:
		if x == float64(int64(x)) {
			return int64(x), true
		}
	case interface{ Int64() int64 }:
		return x.Int64(), true
	}
	return 0, false
}

// sameRender compares fq's rendering with the expected one.
func sameRender(got, want any) bool {
	switch w := want.(type) {
	case string:
		g, ok := got.(string)
		return ok && g == w
	case []byte:
		g, ok := got.([]any)
		if !ok || len(g) != len(w) {
			return false
		}
		for i, e := range g {
			n, ok := asInt(e)
			if !ok || n != int64(w[i]) {
				return false
			}
		}
		return true
	}
	return false
}

func showRender(v any) string {
	switch x := v.(type) {
	case string:
		if len(x) > 80 {
			return fmt.Sprintf("%q…(%d)", x[:80], len(x))
		}
		return fmt.Sprintf("%q", x)
	case []byte:
		return "bytes " + short(x)
	case map[string]any:
		if e, ok := x["verif_err"]; ok {
			return fmt.Sprintf("error %v", e)
		}
	}
	s := fmt.Sprintf("%T %v", v, v)
	if len(s) > 120 {
		s = s[:120] + "…"
	}
	return s
}

func errOf(v any) (string, bool) {
	if m, ok := v.(map[string]any); ok {
		if e, ok := m["verif_err"]; ok {
			return fmt.Sprint(e), true
		}
	}
	return "", false
}

// ---------------------------------------------------------------------------
// the jq side

// The bulk renderings call _tovalue (what tovalue($opts) is defined as) with
// only the two options the renderers read: building the full options object
// and mapping it to the Go struct costs 0.3 ms per call, 20x more than the
// rendering.  The public tovalue({bits_format: f}) is exercised by the "p" rows.
const prelude = `[ ("string","hex","base64","byte_array","md5","truncate","snippet") | {bits_format: ., sizebase: 10} ] as $fmts |`

// outputs, in this order: one "v" row per path, one "f" row per fpath, one
// "w" row if whole, one "p" row per pub entry
const body = `
. as $in | $in.root[0] as $r
| ( $in.paths[] as $p
  | (try ($r | getpath($p)) catch null) as $v
  | [ "v", $v
    , (try ($v | tobits) catch {verif_err: tostring})
    , (try ($v | tobytes) catch {verif_err: tostring})
    , (try ($v | ._bits) catch {verif_err: tostring})
    , (try ($v | ._bytes) catch {verif_err: tostring})
    , (try ($v | tobits | tobytes) catch {verif_err: tostring})
    , (try ($v | tobytes | tobits) catch {verif_err: tostring})
    , (try ($v | tobitsrange) catch {verif_err: tostring})
    , (try ($v | tobytesrange) catch {verif_err: tostring})
    ]
  )
, ( $in.fpaths[] as [$p, $direct, $fis]
  | (try ($r | getpath($p)) catch null) as $v
  | [ "f", $v
    , [ $fmts[$fis[]] as $o
      | [ (try ($v | tobits | _tovalue($o)) catch {verif_err: tostring})
        , (try ($v | tobytes | _tovalue($o)) catch {verif_err: tostring})
        , (if $direct then (try ($v | _tovalue($o)) catch {verif_err: tostring}) else null end)
        ]
      ]
    ]
  )
, ( if $in.whole then
      [ "w", [ $fmts[] as $o | (try ($r | _tovalue($o)) catch {verif_err: tostring}) ] ]
    else empty end
  )
, ( $in.pub[] as [$p, $f]
  | (try ($r | getpath($p)) catch null) as $v
  | [ "p", $v
    , (try ($v | tobits | tovalue({bits_format: $f})) catch {verif_err: tostring})
    , (try ($v | tobytes | tovalue({bits_format: $f})) catch {verif_err: tostring})
    , (try ($v | tovalue({bits_format: $f})) catch {verif_err: tostring})
    ]
  )
`

var stream = &treeq.Stream{Prelude: prelude, Body: body, Restart: 1500}

// ---------------------------------------------------------------------------
// selection of values

type budgetT struct {
	all      bool // every value
	maxNodes int
	maxFmt   int // values rendered
	fmtsPer  int // bits_formats per rendered value (chosen by hash)
	maxPub   int // values rendered through the public tovalue($opts)
	pubEvery int // ... in one of pubEvery trees
	wholeMax int // tovalue of the whole tree per format when the tree has at most this many values
}

func thorough() bool { return os.Getenv("VERIF_TIER") == "thorough" }

func tierBudget() budgetT {
	if thorough() {
		return budgetT{all: true, maxNodes: 1 << 30, maxFmt: 120, fmtsPer: 7, maxPub: 4, pubEvery: 1, wholeMax: 50000}
	}
	return budgetT{maxNodes: 200, maxFmt: 16, fmtsPer: 2, maxPub: 1, pubEvery: 1, wholeMax: 4000}
}

// smallTreeBudget: every value of a small generated tree, few renderings each
// (one _tovalue call costs 0.3 ms, one public tovalue($opts) 1.7 ms).
func smallTreeBudget() budgetT {
	if thorough() {
		return budgetT{all: true, maxFmt: 12, fmtsPer: 3, maxPub: 1, pubEvery: 2, wholeMax: 1 << 30}
	}
	return budgetT{all: true, maxFmt: 6, fmtsPer: 2, maxPub: 1, pubEvery: 4, wholeMax: 1 << 30}
}

// forceAll makes the checker look at every value regardless of the tier
// (seeds, programs, containers: small trees).
var forceAll bool

func mix(x uint64) uint64 {
	x += 0x9e3779b97f4a7c15
	x = (x ^ (x >> 30)) * 0xbf58476d1ce4e5b9
	x = (x ^ (x >> 27)) * 0x94d049bb133111eb
	return x ^ (x >> 31)
}

type nodeInfo struct {
	n         *treegen.Node
	idx       int
	synthetic bool
	nested    bool // lives in a nested buffer (or is the root of one)
	unaligned bool
	gap       bool
	raw       bool // fq shows the value as raw bits
	key       uint64
}

func isRawLeaf(n *treegen.Node) bool {
	s, ok := n.V.V.(scalar.Scalarable)
	if !ok {
		return false
	}
	_, isBR := s.ScalarValue().(bitio.ReaderAtSeeker)
	return isBR
}

// innerRange is the range of a value inside its own buffer by the harness's
// own rule (not Value.InnerRange): the top value and every ordinary value
// report their position in their buffer (the top value may have been decoded
// from a sub-range of a larger buffer); the root of a NESTED buffer reports
// its position in the parent buffer and covers its own buffer from bit 0.
func innerRange(tr *treegen.Tree, n *treegen.Node) ranges.Range {
	if n != tr.Root && n.V.IsRoot {
		return ranges.Range{Start: 0, Len: n.V.Range.Len}
	}
	return n.V.Range
}

func classify(tr *treegen.Tree, seed uint64) []nodeInfo {
	out := make([]nodeInfo, len(tr.All))
	for i, n := range tr.All {
		r := innerRange(tr, n)
		out[i] = nodeInfo{
			n: n, idx: i,
			synthetic: n.IsSynthetic(),
			nested:    n.BufRoot != tr.Root,
			unaligned: r.Start%8 != 0 || r.Len%8 != 0,
			gap:       n.IsGap(),
			raw:       isRawLeaf(n),
			key:       mix(seed ^ uint64(i)*0x100000001b3),
		}
	}
	return out
}

// pick returns the indexes (ascending) of the values to convert.
func pick(infos []nodeInfo, b budgetT) []int {
	if b.all || len(infos) <= b.maxNodes {
		idx := make([]int, 0, len(infos))
		for i := range infos {
			if !infos[i].synthetic {
				idx = append(idx, i)
			}
		}
		return idx
	}
	chosen := map[int]bool{0: true}
	take := func(filter func(nodeInfo) bool, quota int) {
		var cand []int
		for i := range infos {
			if !chosen[i] && !infos[i].synthetic && filter(infos[i]) {
				cand = append(cand, i)
			}
		}
		sort.Slice(cand, func(a, c int) bool { return infos[cand[a]].key < infos[cand[c]].key })
		if len(cand) > quota {
			cand = cand[:quota]
		}
		for _, i := range cand {
			chosen[i] = true
		}
	}
	take(func(x nodeInfo) bool { return x.n.IsBufRoot() }, 16)
	take(func(x nodeInfo) bool { return x.nested && x.unaligned }, 24)
	take(func(x nodeInfo) bool { return x.nested }, 36)
	take(func(x nodeInfo) bool { return x.unaligned }, 50)
	take(func(x nodeInfo) bool { return x.gap }, 12)
	take(func(x nodeInfo) bool { return x.raw }, 16)
	take(func(x nodeInfo) bool { return x.n.IsCompound() }, 16)
	take(func(x nodeInfo) bool { return true }, b.maxNodes-len(chosen))
	idx := make([]int, 0, len(chosen))
	for i := range chosen {
		idx = append(idx, i)
	}
	sort.Ints(idx)
	return idx
}

// ---------------------------------------------------------------------------
// the oracle

type checker struct {
	tr      *treegen.Tree
	topData []byte
	topBits int64
	// the bits the decode was given: the whole top buffer, or the sub-range
	// of it the top value was decoded from
	subStart, subLen int64
	res              *treegen.Result
	bufs             map[bitio.ReaderAtSeeker][]byte
	lens             map[bitio.ReaderAtSeeker]int64
}

func newChecker(tr *treegen.Tree, topData []byte, topBits int64, res *treegen.Result) *checker {
	return &checker{tr: tr, topData: topData, topBits: topBits, subLen: topBits, res: res, bufs: map[bitio.ReaderAtSeeker][]byte{}, lens: map[bitio.ReaderAtSeeker]int64{}}
}

// buffer returns the content and bit length of the buffer n lives in.
func (c *checker) buffer(n *treegen.Node) ([]byte, int64, error) {
	if n.BufRoot == c.tr.Root {
		// the top-level buffer is the input itself
		return c.topData, c.topBits, nil
	}
	r := n.V.RootReader
	if r == nil {
		return nil, 0, fmt.Errorf("value has no buffer")
	}
	if b, ok := c.bufs[r]; ok {
		return b, c.lens[r], nil
	}
	l := c.tr.ReaderLen(r)
	if l < 0 {
		return nil, 0, fmt.Errorf("length of the nested buffer cannot be determined")
	}
	b, err := treegen.ReadBits(r, 0, l)
	if err != nil {
		return nil, 0, fmt.Errorf("bulk read of the nested buffer (%d bits): %v", l, err)
	}
	c.bufs[r], c.lens[r] = b, l
	return b, l, nil
}

type expect struct {
	ok   bool
	n    int64
	e    []byte // the bits, left aligned (= right padded byte form)
	p    []byte // byte form: left padded
	desc string
}

func (c *checker) expected(n *treegen.Node) expect {
	buf, bl, err := c.buffer(n)
	r := innerRange(c.tr, n)
	desc := fmt.Sprintf("%s (range %d:%d of a %d bit %s buffer)", n.Path(), r.Start, r.Len, bl, map[bool]string{true: "nested", false: "top"}[n.BufRoot != c.tr.Root])
	if err != nil {
		c.res.Failf("harness:buffer-unreadable", "%s: %v", desc, err)
		return expect{desc: desc}
	}
	if r.Start < 0 || r.Len < 0 || r.Start+r.Len > bl {
		return expect{desc: desc}
	}
	e := sliceBits(buf, r.Start, r.Len)
	return expect{ok: true, n: r.Len, e: e, p: padLeft(e, r.Len), desc: desc}
}

// checkBinary reads a conversion result back two ways and compares.
//
//	wantBits/wantN: what the bit reader of the result must hold (nil: not asserted)
//	wantRaw:        what raw output must write (nil: not asserted)
func (c *checker) checkBinary(op string, x expect, got any, wantBits []byte, wantN int64, wantRaw []byte) {
	if msg, isErr := errOf(got); isErr {
		c.res.Failf(op+":error", "%s | %s failed: %s", x.desc, op, msg)
		return
	}
	if !treeq.IsBinary(got) {
		c.res.Failf(op+":not-a-binary", "%s | %s is %T, not a binary", x.desc, op, got)
		return
	}
	if wantBits != nil {
		b, n, err := treeq.BinaryBits(got)
		switch {
		case err != nil:
			c.res.Failf(op+":unreadable", "%s | %s: reading the result failed: %v", x.desc, op, err)
		case n != wantN:
			c.res.Failf(op+":wrong-length", "%s | %s has %d bits, want %d", x.desc, op, n, wantN)
		case !eqBytes(b, wantBits):
			c.res.Failf(op+":wrong-bits", "%s | %s = %s, the buffer has %s there", x.desc, op, short(b), short(wantBits))
		}
	}
	if wantRaw != nil {
		b, err := treeq.RawOutput(got)
		switch {
		case err != nil:
			c.res.Failf(op+":raw-output-error", "%s | %s: raw output failed: %v", x.desc, op, err)
		case !eqBytes(b, wantRaw):
			c.res.Failf(op+":raw-output-wrong", "%s | %s written raw = %s, want %s", x.desc, op, short(b), short(wantRaw))
		}
	}
}

func (c *checker) checkRender(sigForm, desc, f string, got any, r []byte, nBits int64) {
	want := render(f, r, nBits)
	if sameRender(got, want) {
		return
	}
	c.res.Failf("render:"+f+":"+sigForm, "%s | %s with bits_format=%s = %s, want %s", desc, sigForm, f, showRender(got), showRender(want))
}

var valueOps = []string{"tobits", "tobytes", "._bits", "._bytes", "tobits|tobytes", "tobytes|tobits", "tobitsrange", "tobytesrange"}

// check converts the chosen values of the tree and compares.
func (c *checker) check(b budgetT, seed uint64) {
	tr, res := c.tr, c.res
	rootV := treeq.RootHolder(tr.Root.V)
	infos := classify(tr, seed)
	sel := pick(infos, b)

	// values for renderings
	var fsel []int
	{
		cand := make([]int, 0, len(sel))
		for _, i := range sel {
			if innerRange(tr, infos[i].n).Len <= 8<<20 {
				cand = append(cand, i)
			}
		}
		weight := func(x nodeInfo) int {
			w := 0
			if x.unaligned {
				w += 4
			}
			if x.nested {
				w += 2
			}
			if x.raw {
				w += 2
			}
			if x.gap {
				w++
			}
			return w
		}
		sort.SliceStable(cand, func(a, d int) bool {
			wa, wd := weight(infos[cand[a]]), weight(infos[cand[d]])
			if wa != wd {
				return wa > wd
			}
			return infos[cand[a]].key < infos[cand[d]].key
		})
		// half by weight, half by hash so that plain values are rendered too
		half := b.maxFmt / 2
		for k := 0; k < len(cand) && k < half; k++ {
			fsel = append(fsel, cand[k])
		}
		rest := append([]int(nil), cand[min(half, len(cand)):]...)
		sort.Slice(rest, func(a, d int) bool { return infos[rest[a]].key < infos[rest[d]].key })
		for k := 0; k < len(rest) && len(fsel) < b.maxFmt; k++ {
			fsel = append(fsel, rest[k])
		}
		sort.Ints(fsel)
	}
	whole := len(tr.All) <= b.wholeMax

	paths := make([]any, len(sel))
	for k, i := range sel {
		paths[k] = treeq.PathOf(infos[i].n)
	}
	fpaths := make([]any, len(fsel))
	ffmts := make([][]int, len(fsel))
	for k, i := range fsel {
		per := min(max(b.fmtsPer, 1), len(formats))
		first := int(mix(infos[i].key+seed) % uint64(len(formats)))
		var fis []any
		for j := 0; j < per; j++ {
			// a stride of 3 walks through all seven formats
			fi := (first + j*3) % len(formats)
			ffmts[k] = append(ffmts[k], fi)
			fis = append(fis, fi)
		}
		fpaths[k] = []any{treeq.PathOf(infos[i].n), infos[i].raw, fis}
	}
	var pub []any
	var pubIdx []int
	npub := b.maxPub
	if b.pubEvery > 1 && mix(seed^0x5bd1e995)%uint64(b.pubEvery) != 0 {
		npub = 0
	}
	for k := 0; k < len(fsel) && len(pub) < npub; k++ {
		i := fsel[(int(seed%997)+k*7)%len(fsel)]
		f := formats[int(mix(seed+uint64(k))%uint64(len(formats)))]
		pub = append(pub, []any{treeq.PathOf(infos[i].n), f})
		pubIdx = append(pubIdx, i)
	}
	if pub == nil {
		pub = []any{}
	}

	// thorough: chunk the value rows so that one answer stays bounded; each
	// chunk is compared before the next one is asked for
	const chunk = 4000
	nt := false
	for off := 0; off == 0 || off < len(paths); off += chunk {
		end := min(off+chunk, len(paths))
		in := map[string]any{"root": rootV, "paths": paths[off:end], "fpaths": []any{}, "whole": false, "pub": []any{}}
		if off == 0 {
			in["fpaths"], in["whole"], in["pub"] = fpaths, whole, pub
		}
		work := end - off + 1
		if off == 0 {
			work += len(fpaths)*4 + len(pub)
			if whole {
				work += len(tr.All) / 4
			}
		}
		out, err := stream.NextW(in, work)
		if err != nil {
			res.Failf("harness:jq-evaluation-failed", "%v", err)
			return
		}
		nv := end - off
		if len(out) < nv || (off > 0 && len(out) != nv) {
			res.Failf("harness:jq-output-shape", "got %d rows for %d paths", len(out), nv)
			return
		}
		if !c.checkValueRows(infos, sel[off:end], out[:nv], &nt) {
			return
		}
		if off == 0 {
			// the rendering rows follow the value rows of the first chunk
			c.checkTail(out[nv:], infos, fsel, ffmts, whole, pub, pubIdx)
		}
	}
	if nt {
		res.NT = true
	}
	for _, info := range infos {
		if info.synthetic {
			res.Stat("values_synthetic_not_asserted", 1)
		}
	}
}

// checkValueRows compares the "v" rows of the values sel (false: give up).
func (c *checker) checkValueRows(infos []nodeInfo, sel []int, rows []any, ntOut *bool) bool {
	tr, res := c.tr, c.res
	nt := false
	defer func() {
		if nt {
			*ntOut = true
		}
	}()
	for k, i := range sel {
		info := infos[i]
		row, _ := rows[k].([]any)
		if len(row) != 2+len(valueOps) {
			res.Failf("harness:jq-output-shape", "value row %d has the wrong shape", k)
			return false
		}
		// make sure the jq value is the value the harness means
		if treeq.DecodeValueOf(row[1]) != info.n.V {
			res.Stat("values_path_not_resolving(C12)", 1)
			continue
		}
		x := c.expected(info.n)
		res.Stat("values", 1)
		if !x.ok {
			if x.desc != "" {
				res.Stat("values_range_outside_buffer", 1)
				msg, _ := errOf(row[2])
				res.Failf("value-range-outside-buffer", "%s: the reported range is not inside the buffer; tobits gives: %s", x.desc, msg)
			}
			continue
		}
		if info.unaligned {
			res.Stat("values_unaligned", 1)
		}
		if info.nested {
			res.Stat("values_in_nested_buffer", 1)
		}
		if info.gap {
			res.Stat("values_gap", 1)
		}
		if info.n.IsBufRoot() && info.n != tr.Root {
			res.Stat("values_nested_buffer_root", 1)
		}
		if info.unaligned || info.nested || info.gap {
			nt = true
		}
		pn := ceil8(x.n)
		c.checkBinary("tobits", x, row[2], x.e, x.n, x.e)
		c.checkBinary("tobytes", x, row[3], x.p, pn, x.p)
		c.checkBinary("._bits", x, row[4], x.e, x.n, nil)
		c.checkBinary("._bytes", x, row[5], x.e, x.n, nil)
		c.checkBinary("tobits|tobytes", x, row[6], x.p, pn, x.p)
		c.checkBinary("tobytes|tobits", x, row[7], x.p, pn, x.p)
		c.checkBinary("tobitsrange", x, row[8], x.e, x.n, x.e)
		c.checkBinary("tobytesrange", x, row[9], x.e, x.n, x.p)
		if info.n == tr.Root {
			// the root value yields the whole input unchanged
			// (= the sub-range the decode was given, when it was given one)
			wholeIn := sliceBits(c.topData, c.subStart, c.subLen)
			if b, n, err := treeq.BinaryBits(row[2]); err == nil && (n != c.subLen || !eqBytes(b, wholeIn)) {
				res.Failf("root:tobits-not-the-whole-input", "root | tobits has %d bits %s, the decoded input (bits %d:%d of a %d bit buffer) has %d bits %s", n, short(b), c.subStart, c.subLen, c.topBits, c.subLen, short(wholeIn))
			}
			if b, err := treeq.RawOutput(row[3]); err == nil && !eqBytes(b, padLeft(wholeIn, c.subLen)) {
				res.Failf("root:tobytes-raw-not-the-whole-input", "root | tobytes written raw is %d bytes %s, the decoded input (bits %d:%d of a %d bit buffer) is %s", len(b), short(b), c.subStart, c.subLen, c.topBits, short(wholeIn))
			}
		}
	}
	return true
}

// checkTail handles the "f", "w" and "p" rows.
func (c *checker) checkTail(tail []any, infos []nodeInfo, fsel []int, ffmts [][]int, whole bool, pub []any, pubIdx []int) {
	res := c.res
	pos := 0
	next := func(tag string) []any {
		if pos >= len(tail) {
			return nil
		}
		row, _ := tail[pos].([]any)
		if len(row) == 0 || row[0] != tag {
			return nil
		}
		pos++
		return row
	}
	for k, i := range fsel {
		row := next("f")
		if len(row) != 3 {
			res.Failf("harness:jq-output-shape", "missing rendering row")
			return
		}
		info := infos[i]
		if treeq.DecodeValueOf(row[1]) != info.n.V {
			continue
		}
		x := c.expected(info.n)
		if !x.ok {
			continue
		}
		per, _ := row[2].([]any)
		if len(per) != len(ffmts[k]) {
			res.Failf("harness:jq-output-shape", "rendering row has %d formats", len(per))
			return
		}
		for pi, fi := range ffmts[k] {
			f := formats[fi]
			res.Stat("renderings_"+f, 2)
			trio, _ := per[pi].([]any)
			if len(trio) != 3 {
				res.Failf("harness:jq-output-shape", "rendering row has the wrong shape")
				return
			}
			c.checkRender("tobits", x.desc, f, trio[0], x.e, x.n)
			c.checkRender("tobytes", x.desc, f, trio[1], x.p, ceil8(x.n))
			if info.raw {
				c.checkRender("tovalue", x.desc, f, trio[2], x.e, x.n)
			}
			res.Stat("renderings", 2)
		}
		res.Stat("values_rendered", 1)
	}
	if whole {
		row := next("w")
		if len(row) != 2 {
			res.Failf("harness:jq-output-shape", "missing whole-tree row")
			return
		}
		per, _ := row[1].([]any)
		if len(per) != len(formats) {
			res.Failf("harness:jq-output-shape", "whole-tree row has %d formats", len(per))
			return
		}
		for fi, f := range formats {
			if msg, isErr := errOf(per[fi]); isErr {
				res.Failf("render:"+f+":tovalue-of-tree-error", "root | tovalue({bits_format:%q}) failed: %s", f, msg)
				continue
			}
			c.walkRendered(c.tr.Root, per[fi], f)
		}
	}
	for k, i := range pubIdx {
		row := next("p")
		if len(row) != 5 {
			res.Failf("harness:jq-output-shape", "missing public tovalue row")
			return
		}
		info := infos[i]
		if treeq.DecodeValueOf(row[1]) != info.n.V {
			continue
		}
		x := c.expected(info.n)
		if !x.ok {
			continue
		}
		f := pub[k].([]any)[1].(string)
		c.checkRender("tobits|tovalue(opts)", x.desc, f, row[2], x.e, x.n)
		c.checkRender("tobytes|tovalue(opts)", x.desc, f, row[3], x.p, ceil8(x.n))
		if info.raw {
			c.checkRender("tovalue(opts)", x.desc, f, row[4], x.e, x.n)
		}
		res.Stat("renderings_public_tovalue", 2)
	}
}

// walkRendered follows the harness's tree through tovalue's JSON and compares
// every raw leaf with the rendering of its bits.
func (c *checker) walkRendered(n *treegen.Node, j any, f string) {
	if comp := n.Compound(); comp != nil {
		if comp.IsArray {
			a, ok := j.([]any)
			if !ok || len(a) != len(n.Kids) {
				c.res.Stat("tovalue_shape_differs(not asserted)", 1)
				return
			}
			for i, k := range n.Kids {
				c.walkRendered(k, a[i], f)
			}
			return
		}
		m, ok := j.(map[string]any)
		if !ok {
			c.res.Stat("tovalue_shape_differs(not asserted)", 1)
			return
		}
		for _, k := range n.Kids {
			jv, has := m[k.V.Name]
			if !has {
				c.res.Stat("tovalue_shape_differs(not asserted)", 1)
				continue
			}
			c.walkRendered(k, jv, f)
		}
		return
	}
	if n.IsSynthetic() || !isRawLeaf(n) {
		return
	}
	x := c.expected(n)
	if !x.ok {
		return
	}
	c.res.Stat("raw_leaves_rendered_in_tree", 1)
	c.checkRender("tovalue-of-tree", x.desc, f, j, x.e, x.n)
}

// checkTree is the entry point for every tree source.
func checkTree(tr *treegen.Tree, topData []byte, topBits int64, seed uint64, res *treegen.Result) {
	c := newChecker(tr, topData, topBits, res)
	b := tierBudget()
	if forceAll {
		b = smallTreeBudget()
	}
	c.check(b, seed)
	for _, n := range tr.All {
		if n != tr.Root && n.IsBufRoot() {
			res.Label("has-nested-buffer")
			break
		}
	}
	if res.Stats["values_unaligned"] > 0 {
		res.Label("has-unaligned-value")
	}
	if res.Stats["values_gap"] > 0 {
		res.Label("has-gap")
	}
}

// checkTreeCase is the treegen handler (corpus cases, in process or in the
// worker).
func checkTreeCase(tc *treegen.TreeCase, res *treegen.Result) {
	seed := harness.HashBytes([]byte(tc.Req.String()))
	checkTree(tc.Tree, tc.Data, int64(len(tc.Data))*8, seed, res)
	if tc.Failed {
		res.Label("failed-decode(partial-tree)")
	}
	if tc.Req.Force {
		res.Label("forced")
	}
}

// ---------------------------------------------------------------------------
// reporting helpers

func report(t *testing.T, name string, cs any, desc string, res *treegen.Result) {
	for _, f := range res.Fails {
		if harness.Violate(name, f.Sig, f.Msg, cs) {
			t.Errorf("[%s] %s: %s", f.Sig, desc, f.Msg)
		}
	}
}

func addStats(res *treegen.Result) {
	keys := make([]string, 0, len(res.Stats))
	for k := range res.Stats {
		keys = append(keys, k)
	}
	sort.Strings(keys)
	for _, k := range keys {
		harness.Label("values:"+k, res.Stats[k])
	}
}

func count(req treegen.Req, res *treegen.Result, extra ...string) {
	labels := append(append([]string{}, res.Labels...), extra...)
	labels = append(labels, "status:"+res.Status)
	harness.Count(harness.HashBytes([]byte(req.String())), res.NT && res.Status == "tree", labels...)
	addStats(res)
}

func replayReq(t *testing.T) (treegen.Req, bool) {
	test, raw, ok := harness.LoadReplayCase()
	if !ok || test != t.Name() {
		return treegen.Req{}, false
	}
	var req treegen.Req
	if json.Unmarshal(raw, &req) != nil || req.Path == "" {
		return treegen.Req{}, false
	}
	return req, true
}
