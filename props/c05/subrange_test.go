package c05

import (
	"bytes"
	"encoding/json"
	"fmt"
	"runtime/debug"
	"sort"
	"testing"

	"github.com/wader/fq/pkg/decode"
	"github.com/wader/fq/verif/lib/fqx"
	"github.com/wader/fq/verif/lib/harness"
	"github.com/wader/fq/verif/lib/treegen"
	"github.com/wader/fq/verif/lib/treeq"
	"pgregory.net/rapid"
)

// Trees whose TOP value was decoded from a sub-range of a larger buffer
// (decode.Options.Range): `binary[a:b] | format`, `value | tobytesrange |
// format`.  Every other source of this check decodes whole buffers, where the
// top value starts at bit 0 and a wrong base offset cannot show.

// subStream decodes on the jq side: the binary is cut with tobytes[a:b] /
// tobits[a:b] (range kept) or taken from a value with tobytesrange.
var subStream = &treeq.Stream{Restart: 1500, Body: `
. as $in
| try
    ( if $in.mode == "bytes" then $in.buf | tobytes[$in.a:$in.b]
      elif $in.mode == "bits" then $in.buf | tobits[$in.a:$in.b]
      elif $in.mode == "chunked" then [$in.cuts as $c | range($c | length - 1) as $i | $in.buf | tobits[$c[$i]:$c[$i+1]]] | tobits[$in.a:$in.b]
      else $in.root[0] | getpath($in.path) | tobytesrange
      end
    | decode($in.format)
    )
  catch {verif_err: tostring}
`}

const maxSubFile = 32 << 10

type subCase struct {
	Kind    string      `json:"kind"` // corpus | gzip | value
	Req     treegen.Req `json:"req,omitempty"`
	Members []*member   `json:"members,omitempty"`
	PreBits int64       `json:"pre_bits"`
	SufBits int64       `json:"suf_bits"`
	Fill    uint64      `json:"fill"`
	Via     string      `json:"via"` // go (decode.Options.Range) | jq (binary[a:b] | decode) | jq-chunked | cli
	// Cuts (jq-chunked): the buffer reaches the decoder as a concatenation of
	// parts cut at these bit offsets ([p0, p1, ...] | tobits: a multi reader,
	// whose reads are short at part boundaries)
	Cuts []int `json:"cuts,omitempty"`
	Pick    uint64      `json:"pick"`
}

// checkSub applies the oracle to a tree whose top value was decoded from bits
// [start, start+n) of buf.
func checkSub(top *decode.Value, buf []byte, bufBits, start, n int64, seed uint64, res *treegen.Result) {
	tr := treegen.Build(top)
	c := newChecker(tr, buf, bufBits, res)
	c.subStart, c.subLen = start, n
	b := tierBudget()
	if len(tr.All) <= 400 {
		b = smallTreeBudget()
	}
	c.check(b, seed)
	res.Stat("subrange_trees", 1)
	res.Stat("subrange_values", int64(len(tr.All)))
}

func drawPad(rt *rapid.T, label string) int64 {
	bits := int64(rapid.OneOf(rapid.IntRange(0, 3), rapid.IntRange(0, 40)).Draw(rt, label+"_bytes")) * 8
	if rapid.IntRange(0, 2).Draw(rt, label+"_unaligned") == 0 {
		bits += int64(rapid.IntRange(1, 7).Draw(rt, label+"_bits"))
	}
	return bits
}

func TestSubRange(t *testing.T) {
	buckets := treegen.Buckets(maxSubFile)
	corpus := treegen.Corpus()
	harness.Rapid(t, 2400, 120000, func(rt *rapid.T, c *harness.Case) {
		sc := &subCase{Kind: rapid.SampledFrom([]string{"corpus", "corpus", "corpus", "gzip", "value", "value"}).Draw(rt, "kind")}
		res := &treegen.Result{}
		c.Label("src:subrange:" + sc.Kind)
		defer func() {
			for _, l := range res.Labels {
				c.Label(l)
			}
			addStats(res)
			for _, f := range res.Fails {
				if harness.Known(f.Sig) {
					continue
				}
				c.Failf(f.Sig, "%s", f.Msg)
			}
		}()
		guard := func(fn func()) {
			defer func() {
				if r := recover(); r != nil {
					res.Failf("oracle-panic", "panic while checking a sub-range decode: %v\n%s", r, debug.Stack())
				}
			}()
			fn()
		}

		if sc.Kind == "value" {
			// value | tobytesrange | decode(format of that value): a format
			// root inside a decoded file (mp3 frame, gzip member, ...) or
			// inside one of its nested buffers
			// (most corpus files have no format below the top: up to four
			// files are tried)
			sc.Pick = rapid.Uint64().Draw(rt, "pick")
			sc.Via = "jq"
			var outer *treegen.Result
			for try := 0; try < 4 && res.Stats["subrange_trees"] == 0 && len(res.Fails) == 0; try++ {
				b := buckets[treegen.UniformIndex(rt, "bucket", len(buckets))]
				e := corpus[b.Entries[treegen.UniformIndex(rt, "entry", len(b.Entries))]]
				sc.Req = treegen.Req{Path: e.Path, Format: e.Format, Mut: treegen.Mutation{Kind: "none"}}
				c.Set("case", sc)
				outer = runValueCase(sc, res, guard)
			}
			c.Label("status:" + outer.Status)
			c.SetNonTrivial(res.Stats["subrange_trees"] > 0)
			return
		}

		// a whole file between filler bits
		var data []byte
		var format string
		if sc.Kind == "corpus" {
			b := buckets[treegen.UniformIndex(rt, "bucket", len(buckets))]
			e := corpus[b.Entries[treegen.UniformIndex(rt, "entry", len(b.Entries))]]
			sc.Req = treegen.Req{Path: e.Path, Format: e.Format, Mut: treegen.Mutation{Kind: "none"}}
			data, format = e.Data, e.Format
		} else {
			sc.Members = drawMembers(rt, 2)
			data, format = buildGzip(sc.Members), "gzip"
		}
		sc.PreBits, sc.SufBits = drawPad(rt, "pre"), drawPad(rt, "suf")
		sc.Fill = rapid.Uint64().Draw(rt, "fill")
		sc.Pick = rapid.Uint64().Draw(rt, "pick")
		sc.Via = rapid.SampledFrom([]string{"go", "go", "jq", "jq", "jq", "cli", "jq-chunked", "jq-chunked"}).Draw(rt, "via")
		if sc.Via == "cli" && (sc.PreBits%8 != 0 || sc.SufBits%8 != 0) {
			sc.Via = "jq"
		}
		nBits := int64(len(data)) * 8
		if nBits == 0 {
			c.Set("case", sc)
			c.Label("skipped:empty-file")
			return
		}
		buf, bufBits := treeq.Embed(data, nBits, sc.PreBits, sc.SufBits, sc.Fill)
		if sc.Via == "jq-chunked" {
			// 1..6 cuts, some near the start of the file (headers), byte aligned or not
			nc := rapid.IntRange(1, 6).Draw(rt, "ncuts")
			cuts := []int{0, int(bufBits)}
			for i := 0; i < nc; i++ {
				var k int
				if rapid.Bool().Draw(rt, "cut_near_start") {
					k = int(sc.PreBits) + rapid.IntRange(1, min(int(nBits), 1024)).Draw(rt, "cut_near")
				} else {
					k = rapid.IntRange(1, int(bufBits)-1).Draw(rt, "cut_any")
				}
				if rapid.Bool().Draw(rt, "cut_aligned") {
					k = k / 8 * 8
				}
				if k > 0 && k < int(bufBits) {
					cuts = append(cuts, k)
				}
			}
			sort.Ints(cuts)
			sc.Cuts = cuts[:1]
			for _, k := range cuts[1:] {
				if k != sc.Cuts[len(sc.Cuts)-1] {
					sc.Cuts = append(sc.Cuts, k)
				}
			}
			c.Label("subrange-chunked-source")
		}
		c.Set("case", sc)
		c.Label("via:" + sc.Via)
		if sc.PreBits%8 != 0 {
			c.Label("subrange-start-unaligned")
		}
		if sc.PreBits > 0 {
			c.Label("subrange-start>0")
		}
		seed := harness.Hash64(sc)
		guard(func() {
			var top *decode.Value
			switch sc.Via {
			case "go", "cli":
				top, _ = treeq.DecodeRange(buf, bufBits, format, sc.PreBits, nBits, false)
			default:
				bin, err := treeq.BinaryOf(buf, bufBits)
				if err != nil {
					res.Failf("harness:binary", "%v", err)
					return
				}
				in := map[string]any{"buf": bin, "format": format, "mode": "bits", "a": int(sc.PreBits), "b": int(sc.PreBits + nBits)}
				// (tobytes of a buffer whose length is not a whole number of
				// bytes pads it first, which moves every offset)
				if sc.Via == "jq-chunked" {
					cs := make([]any, len(sc.Cuts))
					for i, k := range sc.Cuts {
						cs[i] = k
					}
					in["mode"], in["cuts"] = "chunked", cs
				} else if sc.PreBits%8 == 0 && bufBits%8 == 0 {
					in["mode"], in["a"], in["b"] = "bytes", int(sc.PreBits/8), int((sc.PreBits+nBits)/8)
				}
				out, err := subStream.Next(in)
				if err != nil || len(out) != 1 {
					res.Failf("harness:jq-evaluation-failed", "%v (%d outputs)", err, len(out))
					return
				}
				if _, isErr := errOf(out[0]); !isErr {
					top = treeq.DecodeValueOf(out[0])
				}
			}
			if top == nil {
				res.Label("no-tree")
				return
			}
			if top.Err != nil {
				res.Label("failed-decode(partial-tree)")
			}
			checkSub(top, buf, bufBits, sc.PreBits, nBits, seed, res)
			if sc.Via != "cli" {
				return
			}
			// one value through the whole CLI: the file is the big buffer
			tr := treegen.Build(top)
			cc := newChecker(tr, buf, bufBits, res)
			n := tr.All[int(mix(sc.Pick)%uint64(len(tr.All)))]
			if mix(sc.Pick^1)%3 == 0 {
				n = tr.Root
			}
			x := cc.expected(n)
			if !x.ok || n.IsSynthetic() {
				return
			}
			path := treeq.PathOf(n)
			pj, _ := json.Marshal(path)
			if len(path) == 0 {
				pj = []byte("[]")
			}
			fj, _ := json.Marshal(format)
			expr := fmt.Sprintf(".[%d:%d] | decode(%s) | getpath(%s) | tobytes", sc.PreBits/8, (sc.PreBits+nBits)/8, fj, pj)
			r := fqx.Main([]string{"-d", "bytes", expr, "file"}, map[string][]byte{"file": buf}, nil)
			res.Stat("subrange_cli_runs", 1)
			if r.Exit == 0 && bytes.Equal(r.Stdout, x.p) {
				return
			}
			// same tree on the CLI side?
			r2 := fqx.Main([]string{"-d", "bytes", fmt.Sprintf(".[%d:%d] | decode(%s) | getpath(%s) | [._start, ._stop] | tojson", sc.PreBits/8, (sc.PreBits+nBits)/8, fj, pj), "file"}, map[string][]byte{"file": buf}, nil)
			want, _ := json.Marshal([]any{n.V.Range.Start, n.V.Range.Stop()})
			if r2.Exit != 0 || !sameJSON(r2.Stdout, want) {
				res.Label("skipped:cli-tree-differs-from-harness-decode")
				return
			}
			res.Failf("cli:subrange:tobytes:raw-stdout-wrong", "fq -d bytes %q file: exit %d, stdout %s, stderr %q; want %s (%s)", expr, r.Exit, short(r.Stdout), r.Stderr, short(x.p), x.desc)
		})
		c.SetNonTrivial(res.Stats["subrange_trees"] > 0 && sc.PreBits > 0)
	})
}

// TestSeedsSubRange: the InnerRange of a top-level root decoded from a
// sub-range started at bit 0 (repaired in 3d2e7fdc).
func TestSeedsSubRange(t *testing.T) {
	if harness.E.Shard != 0 || harness.E.Replay != "" {
		t.Skip("seeds run in shard 0")
	}
	res := &treegen.Result{Status: "tree"}
	// the expression of the report
	s := &treeq.Stream{Body: `"ab[1,2]cd" | tobytes[2:7] | json
| (try (tobytes | tostring) catch {verif_err: tostring})
, (try (tobits | tobytes | tostring) catch {verif_err: tostring})
, (try (._bytes | tobytes | tostring) catch {verif_err: tostring})
, (try (tobytesrange | tobytes | tostring) catch {verif_err: tostring})`}
	out, err := s.Next(nil)
	s.Close()
	if err != nil || len(out) != 4 {
		res.Failf("harness:jq-evaluation-failed", "%v (%d outputs)", err, len(out))
	} else {
		for i, op := range []string{"tobytes", "tobits|tobytes", "._bytes|tobytes", "tobytesrange|tobytes"} {
			if out[i] != "[1,2]" {
				res.Failf("regression:subrange-root-"+op, `"ab[1,2]cd" | tobytes[2:7] | json | %s = %v, want "[1,2]"`, op, out[i])
			}
		}
	}
	// and through the generic oracle, aligned and unaligned
	for _, pre := range []int64{16, 13} {
		data := []byte("[1,2]")
		buf, bufBits := treeq.Embed(data, 40, pre, 16, 7)
		top, _ := treeq.DecodeRange(buf, bufBits, "json", pre, 40, false)
		if top == nil {
			res.Failf("harness:seed-shape", "json at bit %d of a larger buffer did not decode", pre)
			continue
		}
		sub := &treegen.Result{}
		checkSub(top, buf, bufBits, pre, 40, 1, sub)
		for _, f := range sub.Fails {
			res.Failf("regression:subrange:"+f.Sig, "json decoded from bits %d:40 of a %d bit buffer: %s", pre, bufBits, f.Msg)
		}
		for k, v := range sub.Stats {
			res.Stat(k, v)
		}
	}
	req := treegen.Req{Path: "seed:subrange-root", Format: "json"}
	res.NT = true
	count(req, res, "src:seed")
	report(t, t.Name(), req, req.String(), res)
}

// runValueCase: value | tobytesrange | decode(format of that value) for a
// format root below the top of a decoded corpus file.
func runValueCase(sc *subCase, res *treegen.Result, guard func(func())) *treegen.Result {
	return treegen.Run(sc.Req, func(tc *treegen.TreeCase, _ *treegen.Result) {
		guard(func() {
			oc := newChecker(tc.Tree, tc.Data, int64(len(tc.Data))*8, res)
			var cand []*treegen.Node
			for _, n := range tc.Tree.All {
				if n != tc.Tree.Root && n.V.Format != nil && !n.IsSynthetic() && n.V.Range.Len > 0 {
					cand = append(cand, n)
				}
			}
			if len(cand) == 0 {
				res.Label("no-format-root-below-the-top")
				return
			}
			n := cand[int(mix(sc.Pick)%uint64(len(cand)))]
			buf, bl, err := oc.buffer(n)
			r := innerRange(tc.Tree, n)
			if err != nil || r.Start < 0 || r.Start+r.Len > bl {
				res.Label("skipped:value-buffer-unusable")
				return
			}
			out, err := subStream.Next(map[string]any{"mode": "value", "root": treeq.RootHolder(tc.Top), "path": treeq.PathOf(n), "format": n.V.Format.Name})
			if err != nil || len(out) != 1 {
				res.Failf("harness:jq-evaluation-failed", "%v (%d outputs)", err, len(out))
				return
			}
			if _, isErr := errOf(out[0]); isErr {
				res.Label("no-tree")
				return
			}
			top := treeq.DecodeValueOf(out[0])
			if top == nil {
				res.Label("skipped:decode-result-is-not-a-decode-value")
				return
			}
			if n.BufRoot != tc.Tree.Root {
				res.Label("subrange-of-a-nested-buffer")
			}
			if r.Start%8 != 0 {
				res.Label("subrange-start-unaligned")
			}
			if r.Start > 0 {
				res.Label("subrange-start>0")
			}
			res.Label("format:" + n.V.Format.Name)
			checkSub(top, buf, bl, r.Start, r.Len, mix(sc.Pick), res)
		})
	})
}
