// C03 — every decode tree is structurally sound (ranges, order, names, links).
//
// Sources: (A) corpus (file, format) pairs, unmodified and mutated, force
// on/off; (B) generated decoder programs with a reference interpreter
// (lib/treegen).  Oracle: generic invariants on every tree + exact equality
// with the predicted tree for (B).
package c03

import (
	"encoding/json"
	"fmt"
	"os"
	"runtime/debug"
	"sort"
	"strings"
	"testing"

	"github.com/wader/fq/pkg/decode"
	"github.com/wader/fq/pkg/ranges"
	"github.com/wader/fq/verif/lib/harness"
	"github.com/wader/fq/verif/lib/treegen"
	"pgregory.net/rapid"
)

func TestMain(m *testing.M) {
	if treegen.IsWorker() {
		treegen.ServeWorker(checkCorpusTree)
		os.Exit(0)
	}
	harness.Describe(
		"(A) every (sample file, format) pair named by a *.fqtest command decoded as is with force off and on; rapid-drawn mutants (format bucket drawn uniformly, then file, then truncation / byte set / bit flip / length-field saturation / block dup or delete, force on or off) decoded in a crash-isolated worker; (B) rapid-generated decoder programs over the public decode API (fields, struct/array, seeks with and without restore, FramedFn/LimitedFn/RangeFn, nested formats by position/length/range, nested buffers, synthetic values, Errorf/Fatalf/read past end, duplicate names, one- and two-format groups, force) run by fq and by a reference interpreter that predicts the tree. Non-trivial: tree has >= 2 levels and (a field that is not byte aligned, or a nested buffer/format, or a seek (B only), or a failed/forced decode); distinct = hash of (file, format, mutation, force) or of the program + input. (C) corpus files decoded from a sub-range of a larger buffer (decode.Options.Range; start and length in bits, raw formats included): the same invariants, with \"inside its buffer\" read as \"inside the decoded range\" for values of the top buffer.",
		"struct child Index values are not asserted (the statement speaks about array numbering only)",
		"the Start of a nested buffer root inside its parent is not asserted by the generic invariants (it is a position in another buffer); for generated programs it must be the position at which the decoder attached it",
		"a Go panic or process death of a decoder on a mutated input is C06's subject: the case is counted as skipped, not as a C03 verdict; a decode cut short by the harness's read budget is skipped too",
		"generated programs never name a field gapN (the name space of gap fields); a seek to a negative position must fail, a seek behind the end may fail or succeed (the reference follows what a probe of the fq under test shows, as it does for three known defects: nested roots not post-processed after a failing callback, nested root starts not rebased, the one-bit tolerance of ranges.Gaps); FieldFormatLen/Range with zero length at position 0 means 'whole buffer' as documented on Options.Range",
	)
	harness.Main(m, "C03")
}

// ---------------------------------------------------------------------------
// generic invariants

func fmtRange(r ranges.Range) string { return fmt.Sprintf("%d:%d", r.Start, r.Len) }

// formatOf names the format whose decoder created n (nearest format root).
func formatOf(n *treegen.Node) string {
	for x := n; x != nil; x = x.Parent {
		if x.V.Format != nil {
			if x.V.Format.Name != "" {
				return x.V.Format.Name
			}
			return "anonymous"
		}
	}
	return "none"
}

// pastEndBelow: some value below n (same buffer) has no bits and lies behind
// the end of the buffer.  Such a value can only be made after a seek past the
// end; it inflates the ranges of its ancestors (through post-processing and
// through the range computation of nested format roots), so an ancestor that
// is outside the buffer is a consequence and not reported again.
func pastEndBelow(t *treegen.Tree, n *treegen.Node) bool {
	L := t.ReaderLen(n.V.RootReader)
	for _, k := range n.Kids {
		if k.V.IsRoot || t.ReaderLen(k.V.RootReader) != L {
			continue
		}
		if k.V.Range.Len == 0 && k.V.Range.Start > L {
			return true
		}
		if k.IsCompound() && pastEndBelow(t, k) {
			return true
		}
	}
	return false
}

// CheckInvariants checks the generic C03 invariants on a walked tree.
// fmtSig: add the creating format to hull signatures (corpus trees).
func checkInvariants(t *treegen.Tree, res *treegen.Result, fmtSig bool) {
	// A nested buffer root made by FieldStruct/ArrayRootBitBufFn is
	// post-processed by that function after its callback returns; when the
	// callback fails, it never is.  Everything below such a root is attributed
	// to that one cause.
	// (Repaired in fq by 7e565ad1; the attribution is only kept for an fq
	// that a start-up probe shows to behave the old way, so that on a repaired
	// fq nothing is attributed to it and a regression gets this one signature.)
	stale := map[*treegen.Node]bool{}
	if t.Root.V.Err != nil && !treegen.FQBehaviour().NestedRootProcessedOnFailure {
		for _, n := range t.All {
			if n != t.Root && n.IsBufRoot() && n.IsCompound() && n.V.Format == nil && n.V.Range.Len == 0 && len(n.Kids) > 0 {
				stale[n] = true
			}
		}
	}
	staleSig := func(n *treegen.Node, sig string) string {
		if stale[n.BufRoot] {
			return "failed-decode:nested-root-not-post-processed"
		}
		return sig
	}
	if t.Root.V.Parent != nil {
		res.Failf("root-has-parent", "the top value has a parent (%q)", t.Root.V.Parent.Name)
	}
	for _, n := range t.All {
		v := n.V
		if n.Parent != nil && v.Parent != n.Parent.V {
			pn := "<nil>"
			if v.Parent != nil {
				pn = v.Parent.Name
			}
			res.Failf("parent-link", "%s: Parent is %q but the value is a child of %q", n.Path(), pn, n.Parent.V.Name)
		}
		in := n.Inner()
		if in.Len < 0 {
			res.Failf("negative-length", "%s: range %s", n.Path(), fmtRange(in))
		}
		if L := t.ReaderLen(v.RootReader); L >= 0 && in.Len >= 0 {
			lo := int64(0)
			if subSpan != nil && n.BufRoot == t.Root {
				// decoded from a sub-range of the top buffer: inside that range
				lo, L = subSpan.Start, subSpan.Start+subSpan.Len
			}
			if in.Start < lo || in.Stop() > L {
				kind := "leaf"
				if n.IsCompound() {
					kind = "compound"
					if len(n.Kids) == 0 {
						kind = "empty-compound"
					}
				} else if n.IsSynthetic() {
					kind = "synthetic"
				}
				switch {
				case kind == "compound" && pastEndBelow(t, n):
					// consequence of a child reported on its own: one
					// report per root cause
				case in.Len == 0 && in.Start > L:
					// a value without bits created after a seek past the end
					res.Failf("zero-length-value-past-buffer-end:"+kind, "%s: range %s lies behind the end of its buffer of %d bits", n.Path(), fmtRange(in), L)
				default:
					res.Failf("range-outside-buffer:"+kind, "%s: range %s is not inside its buffer of %d bits", n.Path(), fmtRange(in), L)
				}
			}
		}
		c := n.Compound()
		if c == nil {
			continue
		}
		// range spans the children of the same buffer
		var hull ranges.Range
		first := true
		for _, k := range n.Kids {
			if k.V.IsRoot || k.IsSynthetic() {
				continue
			}
			if first {
				hull, first = k.V.Range, false
			} else {
				hull = ranges.MinMax(hull, k.V.Range)
			}
		}
		if !first && in != hull {
			suffix := ""
			if fmtSig {
				suffix = ":fmt=" + formatOf(n)
			}
			if n != t.Root && n.IsBufRoot() && n.V.Format == nil && hull.Start > 0 && in.Len == hull.Len && !stale[n] {
				// FieldStruct/ArrayRootBitBufFn: post-processing stores the
				// span of the children, InnerRange() of a root then drops
				// its start
				res.Failf("nested-root-inner-range-drops-start", "%s: nested buffer root reports inner range %s, its children span %s", n.Path(), fmtRange(in), fmtRange(hull))
			} else if in.Start > hull.Start || in.Stop() < hull.Stop() {
				res.Failf(staleSig(n, "compound-range-not-spanning-children"+suffix), "%s: range %s, children of the same buffer span %s", n.Path(), fmtRange(in), fmtRange(hull))
			} else {
				res.Failf(staleSig(n, "compound-range-wider-than-children"+suffix), "%s: range %s, children of the same buffer span %s", n.Path(), fmtRange(in), fmtRange(hull))
			}
		}
		if c.IsArray {
			for i, k := range n.Kids {
				if k.V.Index != i {
					res.Failf(staleSig(n, "array-index"), "%s: element %d has Index %d", n.Path(), i, k.V.Index)
					break
				}
			}
			continue
		}
		names := map[string]bool{}
		for i, k := range n.Kids {
			if names[k.V.Name] {
				res.Failf("struct-duplicate-name", "%s: two fields are named %q", n.Path(), k.V.Name)
			}
			names[k.V.Name] = true
			if c.ByName[k.V.Name] != k.V {
				suffix := ""
				if fmtSig {
					suffix = ":fmt=" + formatOf(n)
				}
				res.Failf("struct-byname-mismatch"+suffix, "%s: ByName[%q] is not the child of that name", n.Path(), k.V.Name)
			}
			if i > 0 && n.Kids[i-1].V.Range.Start > k.V.Range.Start {
				res.Failf(staleSig(n, "struct-order"), "%s: field %q (start %d) comes before %q (start %d)", n.Path(), n.Kids[i-1].V.Name, n.Kids[i-1].V.Range.Start, k.V.Name, k.V.Range.Start)
			}
		}
		if len(c.ByName) != len(names) {
			suffix := ""
			if fmtSig {
				suffix = ":fmt=" + formatOf(n)
			}
			var extra []string
			for k := range c.ByName {
				if !names[k] {
					extra = append(extra, k)
				}
			}
			sort.Strings(extra)
			res.Failf("struct-byname-mismatch"+suffix, "%s: ByName has %d entries for %d children (not a child: %q)", n.Path(), len(c.ByName), len(n.Kids), extra)
		}
	}
}

// shape computes labels and the non-triviality facts of a tree.
func shape(t *treegen.Tree, res *treegen.Result) (levels int, unaligned, nested bool) {
	for _, n := range t.All {
		if n.Depth+1 > levels {
			levels = n.Depth + 1
		}
		if n.Parent != nil && (n.V.IsRoot || n.V.Format != nil) {
			nested = true
			if n.V.IsRoot {
				res.Label("nested-buffer")
			} else {
				res.Label("nested-format")
			}
		}
		if !n.IsCompound() && !n.IsSynthetic() {
			if r := n.V.Range; r.Start%8 != 0 || r.Len%8 != 0 {
				unaligned = true
			}
			if n.IsGap() {
				res.Label("has-gap")
			}
		}
	}
	res.Stat("values", int64(len(t.All)))
	return
}

// checkCorpusTree is the oracle for source (A); it also runs in the worker.
func checkCorpusTree(tc *treegen.TreeCase, res *treegen.Result) {
	checkInvariants(tc.Tree, res, true)
	levels, unaligned, nested := shape(tc.Tree, res)
	if unaligned {
		res.Label("unaligned-field")
	}
	if tc.Failed {
		res.Label("failed-decode(partial-tree)")
	}
	if tc.Req.Force {
		res.Label("forced")
	}
	res.NT = levels >= 2 && (unaligned || nested || tc.Failed || tc.Req.Force)
}

// ---------------------------------------------------------------------------
// (A) corpus

func report(t *testing.T, name string, req treegen.Req, res *treegen.Result) {
	for _, f := range res.Fails {
		if harness.Violate(name, f.Sig, f.Msg, req) {
			t.Errorf("[%s] %s: %s", f.Sig, req, f.Msg)
		}
	}
}

func count(req treegen.Req, res *treegen.Result, extra ...string) {
	labels := append(append([]string{}, res.Labels...), extra...)
	labels = append(labels, "status:"+res.Status)
	harness.Count(harness.HashBytes([]byte(req.String())), res.NT && res.Status == "tree", labels...)
	for k, v := range res.Stats {
		harness.ExtraAdd("stat_"+k, v)
	}
}

func replayReq(t *testing.T) (treegen.Req, bool) {
	test, raw, ok := harness.LoadReplayCase()
	if !ok || test != t.Name() {
		return treegen.Req{}, false
	}
	var req treegen.Req
	if json.Unmarshal(raw, &req) != nil || req.Path == "" {
		return treegen.Req{}, false
	}
	return req, true
}

func TestCorpus(t *testing.T) {
	if req, ok := replayReq(t); ok {
		res := treegen.Run(req, checkCorpusTree)
		report(t, t.Name(), req, res)
		return
	}
	if harness.E.Replay != "" {
		t.Skip("replaying another test")
	}
	pool := treegen.NewPool()
	defer pool.Close()
	for i, e := range treegen.Corpus() {
		if !harness.Mine(i) {
			continue
		}
		for _, force := range []bool{false, true} {
			if force && e.Format == "probe" && i%8 != 0 && !harness.Thorough() {
				// a forced probe runs every registered decoder over the file
				// until one gets through: slow and rich in C06 faults, sampled
				continue
			}
			req := treegen.Req{Path: e.Path, Format: e.Format, Mut: treegen.Mutation{Kind: "none"}, Force: force}
			var res *treegen.Result
			if force {
				// a forced decode of a file in the wrong format can die (C06)
				res = pool.Run(req)
				if res.Status != "tree" && res.Status != "notree" {
					harness.Sample("skipped-"+res.Status, 4, map[string]any{"req": req, "detail": res.Detail})
				}
			} else {
				res = treegen.Run(req, checkCorpusTree)
			}
			count(req, res, "src:corpus")
			report(t, t.Name(), req, res)
		}
	}
	harness.ExtraAdd("worker_deaths", int64(pool.Deaths))
}

// mutant sources: files up to 64 KiB
const maxMutantFile = 64 << 10

func TestMutants(t *testing.T) {
	buckets := treegen.Buckets(maxMutantFile)
	corpus := treegen.Corpus()
	pool := treegen.NewPool()
	defer pool.Close()
	answered := 0
	defer func() {
		// a worker that never answers would make this test vacuous
		if answered == 0 && !t.Failed() && harness.Violate(t.Name(), "harness:worker-unusable", "no mutated decode was answered by the worker process", nil) {
			t.Errorf("no mutated decode was answered by the worker process")
		}
	}()
	harness.Rapid(t, 24000, 400000, func(rt *rapid.T, c *harness.Case) {
		b := buckets[treegen.UniformIndex(rt, "bucket", len(buckets))]
		e := corpus[b.Entries[treegen.UniformIndex(rt, "entry", len(b.Entries))]]
		req := treegen.Req{Path: e.Path, Format: e.Format}
		req.Mut = treegen.DrawMutation(rt, len(e.Data))
		req.Force = rapid.IntRange(0, 3).Draw(rt, "force") == 0
		c.Set("req", req)
		res := pool.Run(req)
		if res.Status == "tree" || res.Status == "notree" {
			answered++
		}
		for _, l := range res.Labels {
			c.Label(l)
		}
		c.Label("status:" + res.Status)
		c.Label("src:mutant")
		c.Label("mut:" + req.Mut.Kind)
		c.Label("fmt:" + b.Key)
		if res.Status == "died" || res.Status == "timeout" || res.Status == "panic" {
			harness.Sample("skipped-"+res.Status, 4, map[string]any{"req": req, "detail": res.Detail})
		}
		c.SetNonTrivial(res.NT && res.Status == "tree")
		for _, f := range res.Fails {
			if harness.Known(f.Sig) {
				continue
			}
			c.Failf(f.Sig, "%s: %s", req, f.Msg)
		}
	})
	harness.ExtraAdd("worker_deaths", int64(pool.Deaths))
}

// ---------------------------------------------------------------------------
// (B) generated decoder programs

func checkProgram(p *treegen.Program, res *treegen.Result) {
	pred := treegen.Predict(p)
	var top *decode.Value
	paniced := false
	func() {
		defer func() {
			if r := recover(); r != nil {
				paniced = true
				if pred.GapPanic {
					res.Failf("fillgaps-panic:value-one-bit-behind-buffer-end", "decode.Decode paniced instead of returning a tree: %v", r)
				} else {
					res.Failf("panic:"+harness.TopRepoFrame(string(debug.Stack())), "decode of a generated program paniced: %v", r)
				}
			}
		}()
		top, _ = treegen.RunFQ(p)
	}()
	if paniced {
		res.Label("decode-paniced")
		return
	}
	if pred.GapPanic {
		res.Failf("reference-predicts-gap-panic", "the model of fq's gap filling predicts a panic (negative gap), fq returned normally")
		return
	}
	for l := range pred.Labels {
		res.Label(l)
	}
	treegen.CompareTree(top, pred, res)
	if top == nil {
		res.Label("no-tree")
		return
	}
	t := treegen.Build(top)
	checkInvariants(t, res, false)
	levels, unaligned, nested := shape(t, res)
	if unaligned {
		res.Label("unaligned-field")
	}
	if pred.Failed {
		res.Label("failed-decode(partial-tree)")
	}
	if p.Force {
		res.Label("forced")
	}
	if pred.Seeked {
		res.Label("seek")
	}
	res.NT = levels >= 2 && (unaligned || nested || pred.Seeked || pred.Failed || p.Force)
}

func TestPrograms(t *testing.T) {
	harness.Rapid(t, 240000, 8000000, func(rt *rapid.T, c *harness.Case) {
		p := treegen.DrawProgram(rt, 25, 64)
		c.Set("program", p)
		res := &treegen.Result{}
		checkProgram(p, res)
		var ls []string
		for _, l := range res.Labels {
			ls = append(ls, l)
		}
		sort.Strings(ls)
		for _, l := range ls {
			c.Label(l)
		}
		c.Label("src:program")
		c.SetNonTrivial(res.NT)
		for _, f := range res.Fails {
			if harness.Known(f.Sig) {
				continue
			}
			c.Failf(f.Sig, "%s", f.Msg)
		}
	})
}

// TestSeeds: fixed cases that run in shard 0.
//
// Strict regression seeds of the three repaired defects (521c32ba
// Value.Remove/ByName, 205b5ad2 seek past the end, 7e565ad1 nested root
// post-processed after a failing callback; the FillGaps panic went away with
// 205b5ad2): they must pass, nothing about them is listed as known any more.
// The minimal programs of the findings that are still listed run too (counted
// as known today, silent once repaired).
func TestSeeds(t *testing.T) {
	if harness.E.Shard != 0 || harness.E.Replay != "" {
		t.Skip("seeds run in shard 0")
	}
	fail := func(sig, msg string, cs any) {
		if harness.Violate(t.Name(), sig, msg, cs) {
			t.Errorf("[%s] %s", sig, msg)
		}
	}
	u := func(name string, n int64) *treegen.Op { return &treegen.Op{K: "u", Name: name, N: n} }
	kid := func(v *decode.Value, i int) *decode.Value {
		if v == nil {
			return nil
		}
		if c, ok := v.V.(*decode.Compound); ok && i < len(c.Children) {
			return c.Children[i]
		}
		return nil
	}
	type seed struct {
		name   string
		p      *treegen.Program
		strict func(top *decode.Value) string // "" = ok
	}
	seeds := []seed{
		{"seek-past-end-empty-struct", &treegen.Program{Input: "00", NBits: 8, Fmts: [][]*treegen.Op{{u("a", 8), {K: "seekabs", Off: 100}, {K: "struct", Name: "s"}}}},
			func(top *decode.Value) string {
				// the seek must fail: partial tree with the field read so far, nothing behind the end
				if top == nil || top.Err == nil {
					return "SeekAbs(100) on an 8 bit buffer did not fail the decode"
				}
				if top.Range.Len != 8 || kid(top, 1) != nil {
					return fmt.Sprintf("partial tree after the failed seek: range %d:%d, want 0:8 with the one field read before", top.Range.Start, top.Range.Len)
				}
				return ""
			}},
		{"nested-root-callback-fails", &treegen.Program{Input: "", NBits: 0, Fmts: [][]*treegen.Op{{{K: "structroot", Name: "r", Hex: "00", NB: 8, Kids: []*treegen.Op{u("x", 4), u("y", 8)}}}}},
			func(top *decode.Value) string {
				r := kid(top, 0)
				if r == nil || r.Name != "r" {
					return "nested root r missing from the partial tree"
				}
				if in := r.InnerRange(); in.Start != 0 || in.Len != 4 {
					return fmt.Sprintf("nested root whose callback failed has inner range %d:%d, its child x spans 0:4", in.Start, in.Len)
				}
				return ""
			}},
		{"gap-panic", &treegen.Program{Input: "000000", NBits: 24, Fmts: [][]*treegen.Op{{u("f1", 3), {K: "seekabs_fn", Off: 25, Kids: []*treegen.Op{{K: "utf8", Name: "a"}}}, u("f2", 8), u("f3", 13)}}},
			func(top *decode.Value) string {
				if top == nil {
					return "no tree (decode.Decode paniced or returned nothing)"
				}
				return ""
			}},
		// still listed findings
		{"nested-root-in-nested-format", &treegen.Program{Input: "0000", NBits: 16, Fmts: [][]*treegen.Op{{u("p", 8), {K: "fmt", Name: "f", Fmts: [][]*treegen.Op{{{K: "rootbuf", Name: "r", Hex: "00", NB: 8}, u("q", 8)}}}}}}, nil},
		{"nested-root-seek-first", &treegen.Program{Input: "", NBits: 0, Fmts: [][]*treegen.Op{{{K: "structroot", Name: "f1", Hex: "00", NB: 8, Kids: []*treegen.Op{{K: "seekrel", N: 1}, u("f2", 1)}}}}}, nil},
		{"nested-root-empty-child-not-at-zero", &treegen.Program{Arr: true, Force: true, Input: "", NBits: 0, Fmts: [][]*treegen.Op{{{K: "structroot", Name: "f1", Hex: "00", NB: 8, Kids: []*treegen.Op{{K: "rootbuf", Name: "f2"}, {K: "fmtrange", Name: "f3", Off: 1, Fmts: [][]*treegen.Op{nil, nil}}}}, u("f4", 1)}}}, nil},
		{"trailing-bit-after-synthetic", &treegen.Program{Input: "0b", NBits: 8, Fmts: [][]*treegen.Op{{{K: "framed", N: 8, Kids: []*treegen.Op{u("f1", 7)}}, {K: "val", Name: "f2"}}}}, nil},
	}
	for _, sd := range seeds {
		res := &treegen.Result{}
		checkProgram(sd.p, res)
		harness.Count(harness.Hash64(sd.p), true, "src:seed")
		for _, f := range res.Fails {
			fail(f.Sig, sd.name+": "+f.Msg, sd.p)
		}
		if sd.strict != nil {
			var top *decode.Value
			func() {
				defer func() { _ = recover() }()
				top, _ = treegen.RunFQ(sd.p)
			}()
			if msg := sd.strict(top); msg != "" {
				fail("regression:"+sd.name, sd.name+": "+msg, sd.p)
			}
		}
	}
	// the probes the reference interpreter follows must show the repaired behaviour
	if b := treegen.FQBehaviour(); !b.SeekPastEndFails || !b.NestedRootProcessedOnFailure {
		fail("regression:decode-api-behaviour", fmt.Sprintf("probe of the decode API: seek past end fails=%v, nested root post-processed after a failing callback=%v (both repaired)", b.SeekPastEndFails, b.NestedRootProcessedOnFailure), nil)
	}
	// the corpus inputs the three defects were found on
	pool := treegen.NewPool()
	defer pool.Close()
	corpusSeeds := []struct {
		req    treegen.Req
		banned []string // signature prefixes that must not come back
	}{
		{treegen.Req{Path: "format/tls/testdata/ciphers/TLS_DHE_DSS_WITH_AES_128_CBC_SHA.pcap", Format: "probe", Mut: treegen.Mutation{Kind: "none"}}, []string{"struct-byname-mismatch"}},
		{treegen.Req{Path: "format/apple/bookmark/testdata/loop.book", Format: "apple_bookmark", Mut: treegen.Mutation{Kind: "trunc", Off: 52}}, []string{"zero-length-value-past-buffer-end", "range-outside-buffer"}},
		{treegen.Req{Path: "format/apple/bookmark/testdata/loop.book", Format: "apple_bookmark", Mut: treegen.Mutation{Kind: "trunc", Off: 52}, Force: true}, []string{"zero-length-value-past-buffer-end", "range-outside-buffer"}},
		{treegen.Req{Path: "format/leveldb/testdata/repeats.ldb/000005.ldb", Format: "leveldb_table", Mut: treegen.Mutation{Kind: "setbyte", Off: 3, Val: 1}, Force: true}, []string{"failed-decode:nested-root-not-post-processed", "compound-range", "struct-order", "array-index"}},
		{treegen.Req{Path: "format/ogg/testdata/flac.ogg", Format: "ogg", Mut: treegen.Mutation{Kind: "dup", Off: 32, N: 4}, Force: true}, []string{"failed-decode:nested-root-not-post-processed", "compound-range", "struct-order", "array-index"}},
	}
	for _, cs := range corpusSeeds {
		res := pool.Run(cs.req)
		count(cs.req, res, "src:seed")
		if res.Status != "tree" {
			fail("regression:seed-not-decoded", fmt.Sprintf("%s: status %s (%s), a tree is expected", cs.req, res.Status, res.Detail), cs.req)
			continue
		}
		for _, f := range res.Fails {
			for _, b := range cs.banned {
				if strings.HasPrefix(f.Sig, b) {
					// reported under a regression signature so that no
					// known: line can swallow it
					fail("regression:"+f.Sig, cs.req.String()+": "+f.Msg, cs.req)
				}
			}
		}
		report(t, t.Name(), cs.req, res)
	}
}
