package c18

import (
	"context"
	"fmt"
	"os"
	"path/filepath"
	"regexp"
	"sort"
	"strings"
	"sync"
	"testing"

	"github.com/wader/fq/pkg/decode"
	"github.com/wader/fq/pkg/scalar"
	"github.com/wader/fq/verif/lib/fqx"
	"github.com/wader/fq/verif/lib/harness"
)

// First use: "give byte-identical results to a lone run".  A decoder that
// fills in process-wide state lazily (a table completed on first use of ONE of
// its code paths, a cache, a sync.Once placed in the wrong function) gives a
// different answer only to the decode that comes FIRST in a process, and only
// when that decode takes a path which does not pass the initialisation (seed
// C18-5: the wasm opcode table was completed by the first code section; a
// block opcode in a global initialiser, which precedes the code section, saw
// the incomplete table).  In every other C18 family a process decodes many
// inputs, so only its first job is a "lone run" and that job is an intact
// sample.
//
// Here every variant V gets a process of its own that runs V, then the intact
// file A it was made from (which warms whatever an ordinary decode warms), then
// V again: the first and the third result must agree.  Variants: per decoder
// bucket, files chosen so that together they cover as many distinct field
// classes (value path without array indexes) as possible; per class one leaf
// field; a whole-byte field is set to the small values 0..4 and 255 (type tags,
// opcodes, kinds: branches the sample does not take), any other field of <= 32
// bits gets its first or last bit inverted.
var idxRe = regexp.MustCompile(`\[\d+\]`)

type fuField struct {
	class string
	start int64
	len   int64
}

func leafClasses(top *decode.Value) []fuField {
	var out []fuField
	var path func(v *decode.Value) string
	path = func(v *decode.Value) string {
		if v.Parent == nil {
			return ""
		}
		p := path(v.Parent)
		if _, ok := v.Parent.V.(*decode.Compound); ok && v.Parent.V.(*decode.Compound).IsArray {
			return p + "[]"
		}
		return p + "/" + v.Name
	}
	fqx.Walk(top, func(v *decode.Value, depth int) {
		if _, ok := v.V.(*decode.Compound); ok || v.RootReader != top.RootReader {
			return
		}
		if s, ok := v.V.(scalar.Scalarable); ok && s.ScalarFlags().IsSynthetic() {
			return
		}
		if v.Range.Len < 1 || v.Range.Len > 32 {
			return
		}
		out = append(out, fuField{class: idxRe.ReplaceAllString(path(v), "[]"), start: v.Range.Start, len: v.Range.Len})
	})
	return out
}

func TestFirstUse(t *testing.T) {
	exe, err := os.Executable()
	if err != nil {
		t.Skip("no executable path")
	}
	by := map[string][]fqx.Entry{}
	var ks []string
	for _, e := range fqx.Corpus() {
		if len(e.Data) > 16*1024 || len(e.Data) == 0 {
			continue
		}
		if e.Path == "format/zip/testdata/bigzero-zip.zip" {
			// a decompression bomb: every variant decodes for minutes
			continue
		}
		k := e.Format
		if k == "probe" {
			dir := filepath.Dir(e.Path)
			for strings.HasSuffix(dir, "/testdata") || strings.Contains(filepath.Base(dir), "testdata") {
				dir = filepath.Dir(dir)
			}
			k = "probe:" + filepath.Base(dir)
		}
		if _, ok := by[k]; !ok {
			ks = append(ks, k)
		}
		by[k] = append(by[k], e)
	}
	sort.Strings(ks)
	maxFiles := harness.N(3, 8)
	maxVariants := harness.N(40, 1200)
	for bi, k := range ks {
		if !harness.Mine(bi) {
			continue
		}
		es := by[k]
		sort.Slice(es, func(i, j int) bool {
			if len(es[i].Data) != len(es[j].Data) {
				return len(es[i].Data) < len(es[j].Data)
			}
			return es[i].Path < es[j].Path
		})
		// greedy cover of field classes by files (candidates: a spread over the bucket by size)
		cand := es
		if len(cand) > 120 {
			var c2 []fqx.Entry
			for i := 0; i < 120; i++ {
				c2 = append(c2, es[i*len(es)/120])
			}
			cand = c2
		}
		type fileInfo struct {
			e      fqx.Entry
			fields []fuField
		}
		var infos []fileInfo
		for _, e := range cand {
			top, _, _ := fqx.Decode(context.Background(), e.Data, e.Format, false)
			if top == nil {
				continue
			}
			infos = append(infos, fileInfo{e, leafClasses(top)})
		}
		covered := map[string]bool{}
		type variant struct {
			j     job
			class string
		}
		var vs []variant
		nFiles := 0
		for nFiles < maxFiles {
			best, bestNew := -1, 0
			for i, fi := range infos {
				n := 0
				seen := map[string]bool{}
				for _, f := range fi.fields {
					if !covered[f.class] && !seen[f.class] {
						seen[f.class] = true
						n++
					}
				}
				if n > bestNew {
					best, bestNew = i, n
				}
			}
			if best < 0 {
				break
			}
			nFiles++
			fi := infos[best]
			base := job{Path: fi.e.Path, Format: fi.e.Format, Kind: "tree"}
			vs = append(vs, variant{base, "(intact)"})
			for _, f := range fi.fields {
				if covered[f.class] {
					continue
				}
				covered[f.class] = true
				if f.len == 8 && f.start%8 == 0 {
					cur := int64(fi.e.Data[f.start/8])
					for _, val := range []int64{0, 1, 2, 3, 4, 255} {
						if val == cur {
							continue
						}
						b := base
						b.Set = [][2]int64{{f.start, val}}
						vs = append(vs, variant{b, f.class})
					}
					continue
				}
				b := base
				b.Flip = []int64{f.start}
				vs = append(vs, variant{b, f.class})
				if f.len > 1 {
					b.Flip = []int64{f.start + f.len - 1}
					vs = append(vs, variant{b, f.class})
				}
			}
		}
		harness.ExtraAdd("first_use_field_classes", int64(len(covered)))
		harness.ExtraAdd("first_use_files", int64(nFiles))
		if len(vs) > maxVariants {
			// a seed-dependent sample, the intact files always
			h := harness.HashInts(77, uint64(bi), harness.E.Seed)
			var keep []variant
			for _, v := range vs {
				if v.class == "(intact)" {
					keep = append(keep, v)
				}
			}
			rest := make([]variant, 0, len(vs))
			for _, v := range vs {
				if v.class != "(intact)" {
					rest = append(rest, v)
				}
			}
			for len(keep) < maxVariants && len(rest) > 0 {
				h = h*6364136223846793005 + 1442695040888963407
				i := int((h >> 33) % uint64(len(rest)))
				keep = append(keep, rest[i])
				rest[i] = rest[len(rest)-1]
				rest = rest[:len(rest)-1]
			}
			vs = keep
		}
		// one process per variant, a few at a time
		type res struct {
			got map[int]string
			ok  bool
		}
		results := make([]res, len(vs))
		sem := make(chan struct{}, 3)
		var wg sync.WaitGroup
		for i, v := range vs {
			wg.Add(1)
			sem <- struct{}{}
			go func(i int, v variant) {
				defer wg.Done()
				defer func() { <-sem }()
				a := v.j
				a.Flip, a.Set = nil, nil
				got, ok := seqRun(exe, []job{v.j, a, v.j})
				results[i] = res{got, ok}
			}(i, v)
		}
		wg.Wait()
		for i, v := range vs {
			r := results[i]
			if !r.ok {
				harness.ExtraAdd("first_use_inconclusive", 1)
				harness.Sample("first-use-process-given-up", 8, v.j)
				continue
			}
			lbl := "first-use-corrupt-variant"
			if v.class == "(intact)" {
				lbl = "first-use-intact"
			}
			harness.Count(harness.HashBytes([]byte("fu"+v.j.key())), true, "first-use-process", lbl)
			if r.got[0] != r.got[2] {
				if harness.Violate(t.Name(), "first-decode-of-process-differs-from-later-decode", fmt.Sprintf("job %s (field class %s): as the first decode of a fresh process %s, after a decode of the intact file in the same process %s", v.j.key(), v.class, r.got[0], r.got[2]), map[string]any{"jobs": []job{v.j, v.j}, "class": v.class}) {
					t.Errorf("first use: %s", v.j.key())
				}
				break
			}
		}
	}
}
