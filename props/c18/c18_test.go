// C18 — decoding is deterministic, isolated and race-free.
//
// Jobs (decode + render) are run alone, repeatedly, in permuted orders and
// concurrently on 1..16 goroutines in one process that shares
// interp.DefaultRegistry; every result must be byte-identical to the job's
// lone run (a fresh process for a sample, the first in-process run otherwise),
// and the binary is built with -race.
package c18

import (
	"bytes"
	"context"
	"crypto/sha256"
	"encoding/hex"
	"encoding/json"
	"fmt"
	"io"
	"math/big"
	"os"
	"os/exec"
	"path/filepath"
	"sort"
	"strings"
	"sync"
	"testing"
	"time"

	"github.com/wader/fq/pkg/bitio"
	"github.com/wader/fq/pkg/decode"
	"github.com/wader/fq/pkg/interp"
	"github.com/wader/fq/pkg/scalar"
	"github.com/wader/fq/verif/lib/fqx"
	"github.com/wader/fq/verif/lib/harness"
	"github.com/wader/fq/verif/lib/vos"
	"pgregory.net/rapid"
)

func TestMain(m *testing.M) {
	if d := os.Getenv("VERIF_C18_LONE"); d != "" {
		// lone run of one job in a fresh process: print its result hash
		var j job
		if err := json.Unmarshal([]byte(d), &j); err != nil {
			fmt.Println("LONE-ERROR", err)
			os.Exit(0)
		}
		fmt.Println("LONE-HASH", runJob(j))
		os.Exit(0)
	}
	if d := os.Getenv("VERIF_C18_SEQ"); d != "" {
		// a fresh process that runs the jobs one after the other
		var js []job
		if err := json.Unmarshal([]byte(d), &js); err != nil {
			fmt.Println("SEQ-ERROR", err)
			os.Exit(0)
		}
		coldData = map[string][]byte{}
		for _, j := range js {
			b, err := os.ReadFile(filepath.Join(fqx.RepoDir(), j.Path))
			if err != nil {
				fmt.Println("SEQ-ERROR", err)
				os.Exit(0)
			}
			coldData[j.Path] = b
		}
		for i, j := range js {
			fmt.Println("SEQ-HASH", i, runJob(j))
		}
		os.Exit(0)
	}
	if d := os.Getenv("VERIF_C18_COLD"); d != "" {
		// cold start: the very first use of the process-wide registry happens
		// on several goroutines at once (nothing below may touch the registry
		// before the goroutines start)
		var js []job
		if err := json.Unmarshal([]byte(d), &js); err != nil {
			fmt.Println("COLD-ERROR", err)
			os.Exit(0)
		}
		coldData = map[string][]byte{}
		for _, j := range js {
			b, err := os.ReadFile(filepath.Join(fqx.RepoDir(), j.Path))
			if err != nil {
				fmt.Println("COLD-ERROR", err)
				os.Exit(0)
			}
			coldData[j.Path] = b
		}
		start := make(chan struct{})
		var wg sync.WaitGroup
		hs := make([]string, len(js))
		for i, j := range js {
			wg.Add(1)
			go func(i int, j job) {
				defer wg.Done()
				<-start
				hs[i] = runJob(j)
			}(i, j)
		}
		close(start)
		wg.Wait()
		for i, h := range hs {
			fmt.Println("COLD-HASH", i, h)
		}
		os.Exit(0)
	}
	harness.Describe(
		"jobs = (corpus file <= 16 KiB balanced over formats, format (home / probe), force, kind) where kind is 'tree' (decode.Decode + canonical dump of every value: path, range, actual, sym, description, error), or a whole CLI run 'dv' / 'V' (-V JSON) / 'torepr' with per-format options set or unset (-o); failing decodes included. A rapid-drawn schedule is a sequence of batches, each batch runs 1..16 goroutines with their own job lists (same file many times, different formats mixed), every job with its own Interp sharing the process-wide registry; built with -race. Oracle: every result hash equals the job's reference (first sequential in-process run; for a per-run sample also a lone run in a fresh process), in every order and interleaving; any race detector report fails the run. Further families: the same bytes handed to the decoder as a concatenation of 2..64 parts (a multi reader, short reads at part boundaries) must give the flat decode's hash, with foreign decodes in between; fresh processes whose FIRST decodes run on 8 goroutines at once (cold start) must give the sequential hashes; per format, corrupt variants of a sample file (bits of 1-bit fields and first bits of small fields inverted) decoded in a fresh process after a decode of the intact file with the OTHER force setting must give the hashes of a process that only decoded the variants (an option of an earlier job must not decide a later one); first use: per decoder bucket, files chosen to cover the most field classes (value path without indexes), per class one leaf field set to 0..4/255 (whole-byte fields) or with its first/last bit inverted, every variant in a fresh process of its own that runs variant, intact file, variant: the first result (the lone run) must equal the third. Non-trivial: a batch with >= 4 concurrent jobs of >= 2 formats, or the same job >= 3 times in one schedule; distinct = the schedule.",
		"the Go scheduler is not owned by the harness: interleavings are explored by repetition and goroutine count only",
		"a schedule-dependent mismatch may not replay deterministically; the replay command re-runs the schedule 10 times under -race",
	)
	harness.Main(m, "C18")
}

type job struct {
	Path   string   `json:"path"`
	Format string   `json:"format"`
	Force  bool     `json:"force,omitempty"`
	Kind   string   `json:"kind"` // tree dv V torepr
	Opts   []string `json:"opts,omitempty"`
	// Chunks: the same bytes presented as a concatenation of parts cut at these
	// byte offsets (a bitio.MultiReader, as fq builds for binary arrays and
	// multi-member data): decoding is a function of the input BYTES, so the
	// result must equal the flat decode's
	Chunks []int `json:"chunks,omitempty"`
	// Flip: bit offsets of the file that are inverted (a corrupt input whose
	// decode runs into validating readers, where options such as force matter)
	Flip []int64 `json:"flip,omitempty"`
	// Set: [bit offset, value] pairs: the byte at that (byte aligned) offset is overwritten
	Set [][2]int64 `json:"set,omitempty"`
}

func (j job) flat() job { j.Chunks = nil; return j }

func (j job) key() string { b, _ := json.Marshal(j); return string(b) }

var (
	dataOnce sync.Once
	dataMap  map[string][]byte
)

var coldData map[string][]byte

func dataOf(path string) []byte {
	if coldData != nil {
		return coldData[path]
	}
	dataOnce.Do(func() {
		dataMap = map[string][]byte{}
		for _, e := range fqx.Corpus() {
			dataMap[e.Path] = e.Data
		}
	})
	return dataMap[path]
}

func sumHex(b []byte) string {
	s := sha256.Sum256(b)
	return hex.EncodeToString(s[:12])
}

// dumpValue renders one value canonically (no addresses, no map order).
func dumpValue(w *bytes.Buffer, v *decode.Value, path string) {
	fmt.Fprintf(w, "%s %d:%d idx=%d root=%v", path, v.Range.Start, v.Range.Len, v.Index, v.IsRoot)
	if v.Err != nil {
		fmt.Fprintf(w, " err=%q", v.Err.Error())
	}
	switch vv := v.V.(type) {
	case *decode.Compound:
		fmt.Fprintf(w, " compound array=%v n=%d desc=%q", vv.IsArray, len(vv.Children), vv.Description)
	case scalar.Scalarable:
		fmt.Fprintf(w, " %T actual=%s sym=%s desc=%q flags=%v", vv, render(vv.ScalarActual()), render(vv.ScalarSym()), vv.ScalarDescription(), vv.ScalarFlags())
	default:
		fmt.Fprintf(w, " %T", vv)
	}
	w.WriteByte('\n')
	if c, ok := v.V.(*decode.Compound); ok {
		for i, ch := range c.Children {
			p := path + "." + ch.Name
			if c.IsArray {
				p = fmt.Sprintf("%s[%d]", path, i)
			}
			dumpValue(w, ch, p)
		}
	}
}

func render(x any) string {
	switch x := x.(type) {
	case nil:
		return "nil"
	case bitio.ReaderAtSeeker:
		var bb bytes.Buffer
		c, err := bitio.CloneReaderAtSeeker(x)
		if err != nil {
			return "bits:clone-error"
		}
		// bit-exact whatever the sizes of the reader's short reads are
		n, err := c.SeekBits(0, io.SeekEnd)
		if err != nil {
			return "bits:len-error"
		}
		bb.Grow(int(bitio.BitsByteCount(n)))
		buf := bb.Bytes()[:bitio.BitsByteCount(n)]
		if _, err := bitio.ReadAtFull(c, buf, n, 0); err != nil {
			return "bits:read-error:" + err.Error()
		}
		return fmt.Sprintf("bits:%d:%s", n, sumHex(buf))
	case *big.Int:
		return "big:" + x.String()
	case float64, float32, int, int64, uint64, bool, string:
		return fmt.Sprintf("%T:%v", x, x)
	case map[string]any:
		ks := make([]string, 0, len(x))
		for k := range x {
			ks = append(ks, k)
		}
		sort.Strings(ks)
		var sb strings.Builder
		sb.WriteString("{")
		for _, k := range ks {
			sb.WriteString(k + ":" + render(x[k]) + ",")
		}
		return sb.String() + "}"
	case []any:
		var sb strings.Builder
		sb.WriteString("[")
		for _, e := range x {
			sb.WriteString(render(e) + ",")
		}
		return sb.String() + "]"
	}
	return fmt.Sprintf("%T", x)
}

// runJob returns the hash of the job's complete observable result.
func runJob(j job) (h string) {
	defer func() {
		if r := recover(); r != nil {
			// a Go panic is C06's business; here it is just a (deterministic) outcome
			h = "panic:" + sumHex([]byte(fmt.Sprint(r)))
		}
	}()
	data := dataOf(j.Path)
	if len(j.Flip) > 0 || len(j.Set) > 0 {
		data = append([]byte(nil), data...)
		for _, k := range j.Flip {
			if k >= 0 && k/8 < int64(len(data)) {
				data[k/8] ^= 0x80 >> uint(k%8)
			}
		}
		for _, kv := range j.Set {
			if kv[0] >= 0 && kv[0]%8 == 0 && kv[0]/8 < int64(len(data)) {
				data[kv[0]/8] = byte(kv[1])
			}
		}
	}
	if j.Kind == "tree" && len(j.Chunks) > 0 {
		g, gerr := interp.DefaultRegistry.Group(j.Format)
		if gerr != nil {
			return "group-error"
		}
		var parts []bitio.ReadAtSeeker
		prev := 0
		for _, c := range append(append([]int{}, j.Chunks...), len(data)) {
			if c < prev || c > len(data) {
				continue
			}
			parts = append(parts, bitio.NewBitReader(data[prev:c], -1))
			prev = c
		}
		mr, merr := bitio.NewMultiReader(parts...)
		if merr != nil {
			return "multireader-error"
		}
		v, _, err := decode.Decode(context.Background(), mr, g, decode.Options{IsRoot: true, FillGaps: true, Force: j.Force, Description: "verif"})
		var w bytes.Buffer
		if err != nil {
			fmt.Fprintf(&w, "error: %s\n", err.Error())
		}
		if v != nil {
			dumpValue(&w, v, "")
		}
		return sumHex(w.Bytes())
	}
	if j.Kind == "tree" {
		v, _, err := fqx.Decode(context.Background(), data, j.Format, j.Force)
		var w bytes.Buffer
		if err != nil {
			fmt.Fprintf(&w, "error: %s\n", err.Error())
		}
		if v != nil {
			dumpValue(&w, v, "")
		}
		return sumHex(w.Bytes())
	}
	args := []string{"-d", j.Format}
	if j.Force {
		args = append(args, "-o", "force=true")
	}
	for _, o := range j.Opts {
		args = append(args, "-o", o)
	}
	switch j.Kind {
	case "dv":
		args = append(args, "dv", "f")
	case "V":
		args = append(args, "-V", ".", "f")
	case "torepr":
		args = append(args, "torepr", "f")
	}
	o := vos.New(args...)
	o.Files["f"] = data
	res := o.Run(context.Background(), interp.DefaultRegistry)
	var w bytes.Buffer
	fmt.Fprintf(&w, "exit=%d\n", res.Exit)
	w.Write(res.Stdout)
	w.WriteString("\n--stderr--\n")
	w.WriteString(res.Stderr)
	return sumHex(w.Bytes())
}

// per-format options that change the tree (set = non-default value)
var formatOpts = map[string][]string{
	"mp4":           {"decode_samples=false"},
	"mp3":           {"max_unique_header_configs=1", "max_sync_seek=1"},
	"matroska":      {"decode_samples=false"},
	"flac":          {},
	"gzip":          {"uncompress=false"},
	"zip":           {"uncompress=false"},
	"tar":           {},
	"tls":           {},
	"pcap":          {},
	"avi":           {"decode_samples=false"},
	"bitcoin_block": {"has_header=true"},
}

var (
	poolOnce sync.Once
	treeJobs []job
	mainJobs []job
)

func buildPool() {
	poolOnce.Do(func() {
		by := map[string][]fqx.Entry{}
		var fs []string
		for _, e := range fqx.Corpus() {
			if len(e.Data) > 16*1024 || len(e.Data) == 0 {
				continue
			}
			// samples whose golden test runs without -d (format "probe", about
			// half of the corpus) are bucketed by the directory of their decoder:
			// as ONE bucket only its three smallest files were used
			k := e.Format
			if k == "probe" {
				dir := filepath.Dir(e.Path)
				for strings.HasSuffix(dir, "/testdata") || strings.Contains(filepath.Base(dir), "testdata") {
					dir = filepath.Dir(dir)
				}
				k = "probe:" + filepath.Base(dir)
			}
			if _, ok := by[k]; !ok {
				fs = append(fs, k)
			}
			by[k] = append(by[k], e)
		}
		sort.Strings(fs)
		for _, f := range fs {
			es := by[f]
			sort.Slice(es, func(i, j int) bool { return len(es[i].Data) < len(es[j].Data) })
			for i, e := range es {
				if i >= 3 {
					break
				}
				if strings.HasPrefix(f, "probe:") {
					// (a probe decode tries many decoders: one file per bucket)
					if i == 0 {
						treeJobs = append(treeJobs, job{Path: e.Path, Format: e.Format, Kind: "tree"})
					}
					continue
				}
				treeJobs = append(treeJobs, job{Path: e.Path, Format: e.Format, Kind: "tree"})
				if i == 0 {
					// a failing decode of the same bytes under a foreign format, and the probe
					treeJobs = append(treeJobs, job{Path: e.Path, Format: "probe", Kind: "tree"})
					foreign := "mp3"
					if f == "mp3" {
						foreign = "png"
					}
					treeJobs = append(treeJobs, job{Path: e.Path, Format: foreign, Kind: "tree"})
					for _, k := range []string{"dv", "V", "torepr"} {
						mainJobs = append(mainJobs, job{Path: e.Path, Format: e.Format, Kind: k})
					}
					if os, ok := formatOpts[f]; ok && len(os) > 0 {
						mainJobs = append(mainJobs, job{Path: e.Path, Format: e.Format, Kind: "dv", Opts: os})
					}
				}
			}
		}
	})
}

var (
	refMu sync.Mutex
	refs  = map[string]string{}
)

// reference computes (once, sequentially, before any concurrency) the first
// in-process result of a job.
func reference(j job) string {
	j = j.flat()
	k := j.key()
	refMu.Lock()
	defer refMu.Unlock()
	if h, ok := refs[k]; ok {
		return h
	}
	h := runJob(j)
	refs[k] = h
	return h
}

type schedule struct {
	Batches [][][]job `json:"batches"` // batch -> goroutine -> jobs
}

func runSchedule(s schedule) (sig, msg string) {
	// references first, sequentially
	for _, b := range s.Batches {
		for _, g := range b {
			for _, j := range g {
				reference(j)
			}
		}
	}
	var mu sync.Mutex
	for bi, b := range s.Batches {
		var wg sync.WaitGroup
		for gi, g := range b {
			wg.Add(1)
			go func(gi int, g []job) {
				defer wg.Done()
				for _, j := range g {
					h := runJob(j)
					harness.Label("job-"+j.Kind, 1)
					if len(j.Chunks) > 0 {
						harness.Label("job-chunked-input", 1)
					}
					harness.Label("jobs-run-concurrently", 1)
					if want := reference(j); h != want {
						mu.Lock()
						if sig == "" {
							sig = "result-differs-from-first-run:" + j.Kind
							if len(j.Chunks) > 0 {
								sig = "chunked-input-result-differs-from-flat:" + j.Kind
							}
							msg = fmt.Sprintf("batch %d goroutine %d: job %s gave %s, its first run in this process gave %s", bi, gi, j.key(), h, want)
						}
						mu.Unlock()
					}
				}
			}(gi, g)
		}
		wg.Wait()
	}
	return sig, msg
}

func TestSchedules(t *testing.T) {
	buildPool()
	harness.Rapid(t, 320, 6000, func(rt *rapid.T, c *harness.Case) {
		nb := rapid.IntRange(1, 3).Draw(rt, "batches")
		var s schedule
		counts := map[string]int{}
		nt := false
		for b := 0; b < nb; b++ {
			ng := rapid.SampledFrom([]int{1, 2, 4, 4, 8, 16}).Draw(rt, "goroutines")
			var batch [][]job
			formats := map[string]bool{}
			hot := treeJobs[rapid.IntRange(0, len(treeJobs)-1).Draw(rt, "hot")]
			for g := 0; g < ng; g++ {
				nj := rapid.IntRange(1, 4).Draw(rt, "jobs")
				var js []job
				for k := 0; k < nj; k++ {
					var j job
					switch rapid.IntRange(0, 19).Draw(rt, "sel") {
					case 0:
						j = mainJobs[rapid.IntRange(0, len(mainJobs)-1).Draw(rt, "mj")]
					case 1, 2, 3, 4, 5:
						j = hot // the same job many times
					default:
						j = treeJobs[rapid.IntRange(0, len(treeJobs)-1).Draw(rt, "tj")]
						if rapid.IntRange(0, 3).Draw(rt, "chunked") == 0 {
							n := len(dataOf(j.Path))
							nc := rapid.IntRange(1, 4).Draw(rt, "nchunks")
							var cs []int
							for c := 0; c < nc && n > 1; c++ {
								cs = append(cs, rapid.OneOf(rapid.IntRange(1, min(n-1, 64)), rapid.IntRange(1, n-1)).Draw(rt, "cut"))
							}
							sort.Ints(cs)
							j.Chunks = cs
						}
						if j.Format != "probe" && rapid.IntRange(0, 9).Draw(rt, "force") == 0 {
							j.Force = !strings.Contains("ar zip tar mp4 probe bplist midi matroska gzip", j.Format)
						}
					}
					js = append(js, j)
					formats[j.Format] = true
					counts[j.key()]++
				}
				batch = append(batch, js)
			}
			if ng >= 4 && len(formats) >= 2 {
				nt = true
			}
			s.Batches = append(s.Batches, batch)
		}
		for _, n := range counts {
			if n >= 3 {
				nt = true
			}
		}
		c.Set("schedule", s)
		c.SetNonTrivial(nt)
		sig, msg := runSchedule(s)
		c.Check(sig == "", sig, "%s", msg)
	})
}

// sequential permutations: state must not leak from one input to the next
func TestOrders(t *testing.T) {
	buildPool()
	harness.Rapid(t, 240, 4000, func(rt *rapid.T, c *harness.Case) {
		n := rapid.IntRange(3, 10).Draw(rt, "n")
		var js []job
		for i := 0; i < n; i++ {
			if rapid.IntRange(0, 14).Draw(rt, "main") == 0 {
				js = append(js, mainJobs[rapid.IntRange(0, len(mainJobs)-1).Draw(rt, "mj")])
			} else {
				js = append(js, treeJobs[rapid.IntRange(0, len(treeJobs)-1).Draw(rt, "tj")])
			}
		}
		c.Set("order", js)
		for _, j := range js {
			reference(j)
		}
		perm := rapid.Permutation(js).Draw(rt, "perm")
		for i, j := range perm {
			h := runJob(j)
			harness.Label("jobs-run-in-permuted-order", 1)
			c.Check(h == reference(j), "result-depends-on-order:"+j.Kind, "job %s run as #%d of %d gave %s, its first run gave %s", j.key(), i, len(perm), h, reference(j))
		}
		c.SetNonTrivial(n >= 4)
	})
}

// chunked inputs: the same bytes presented as a concatenation of parts (what
// fq builds for `[a, b] | tobytes | fmt` and multi-member data) must decode to
// the same tree as the flat buffer. Readers short-read at part boundaries, so
// code that assumes one read fills its buffer sees zeros -- or, with a reused
// buffer, bytes of an earlier decode (seed C18-3).
func TestChunkedInputs(t *testing.T) {
	buildPool()
	per := harness.N(3, 24)
	seed := harness.SeedFor("TestChunkedInputs")
	for i, fj := range treeJobs {
		if !harness.Mine(i) {
			continue
		}
		n := len(dataOf(fj.Path))
		if n < 2 {
			continue
		}
		want := reference(fj)
		for k := 0; k < per; k++ {
			seed = seed*6364136223846793005 + 1442695040888963407
			r := seed >> 20
			var cs []int
			switch k % 3 {
			case 0: // one cut near the start, where headers with raw/hex fields live
				cs = []int{1 + int(r%uint64(min(n-1, 96)))}
			case 1: // one cut anywhere
				cs = []int{1 + int(r%uint64(n-1))}
			default: // many small parts
				step := 1 + int(r%13)
				for c := step; c < n && len(cs) < 64; c += step {
					cs = append(cs, c)
				}
			}
			j := fj
			j.Chunks = cs
			// something else in between, so that a recycled buffer holds foreign bytes
			other := treeJobs[int((r>>8)%uint64(len(treeJobs)))]
			runJob(other)
			h := runJob(j)
			harness.Count(harness.HashInts(91, uint64(i), uint64(k), harness.E.Seed), true, "chunked-input-decode", fmt.Sprintf("chunk-shape-%d", k%3))
			if h != want {
				if harness.Violate("TestChunkedInputs", "chunked-input-result-differs-from-flat:tree", fmt.Sprintf("job %s gave %s, the flat buffer gave %s", j.key(), h, want), map[string]any{"job": j}) {
					t.Fail()
				}
			}
		}
	}
}

// cold start: fresh processes whose FIRST use of the shared registry is
// concurrent (seed C18-2: a lazily initialised registry that is published
// before it is complete is only visible then)
func TestColdStart(t *testing.T) {
	buildPool()
	exe, err := os.Executable()
	if err != nil {
		t.Skip("no executable path")
	}
	n := harness.N(4, 40)
	seed := harness.SeedFor("TestColdStart")
	for k := 0; k < n; k++ {
		var js []job
		for len(js) < 8 {
			seed = seed*6364136223846793005 + 1442695040888963407
			j := treeJobs[int((seed>>33)%uint64(len(treeJobs)))]
			js = append(js, j)
		}
		b, _ := json.Marshal(js)
		cmd := exec.Command(exe, "-test.run=^$")
		cmd.Env = append(os.Environ(), "VERIF_C18_COLD="+string(b), "VERIF_FRAG=", "GORACE=halt_on_error=0 atexit_sleep_ms=0")
		out, cerr := cmd.CombinedOutput()
		got := map[int]string{}
		for _, l := range strings.Split(string(out), "\n") {
			var i int
			var h string
			if n, _ := fmt.Sscanf(l, "COLD-HASH %d %s", &i, &h); n == 2 {
				got[i] = h
			}
		}
		if strings.Contains(string(out), "WARNING: DATA RACE") {
			o := string(out)
			if len(o) > 4000 {
				o = o[:4000]
			}
			if harness.Violate(t.Name(), "cold-start:data-race", "concurrent first use of the registry in a fresh process: "+o, js) {
				t.Errorf("data race on cold start")
			}
			continue
		}
		if cerr != nil || len(got) != len(js) {
			harness.ExtraAdd("cold_start_inconclusive", 1)
			continue
		}
		for i, j := range js {
			want := reference(j)
			harness.Count(harness.HashInts(77, uint64(k), uint64(i), harness.E.Seed), true, "cold-start-job")
			if got[i] != want {
				if harness.Violate(t.Name(), "cold-start:result-differs:"+j.Kind, fmt.Sprintf("job %s run as one of 8 concurrent FIRST decodes of a fresh process gave %s, sequentially %s", j.key(), got[i], want), js) {
					t.Errorf("cold start differs for %s", j.key())
				}
			}
		}
	}
}

// seqRun runs the jobs sequentially in a fresh process.
func seqRun(exe string, js []job) (map[int]string, bool) {
	b, _ := json.Marshal(js)
	// a corrupt variant may send a decoder into a very long decode (C06's
	// business): the process is given up after 20 s and the case is inconclusive
	ctx, cancel := context.WithTimeout(context.Background(), 20*time.Second)
	defer cancel()
	cmd := exec.CommandContext(ctx, exe, "-test.run=^$")
	cmd.Env = append(os.Environ(), "VERIF_C18_SEQ="+string(b), "VERIF_FRAG=", "GORACE=halt_on_error=0 atexit_sleep_ms=0")
	out, err := cmd.CombinedOutput()
	got := map[int]string{}
	for _, l := range strings.Split(string(out), "\n") {
		var i int
		var h string
		if n, _ := fmt.Sscanf(l, "SEQ-HASH %d %s", &i, &h); n == 2 {
			got[i] = h
		}
	}
	return got, err == nil && len(got) == len(js)
}

// An option of an EARLIER job must not decide what a later job does (seed
// C18-4: a validating mapper created once per process closed over the force
// option of whichever decode came first; within one process every run after
// the first agrees with every other, so only processes with different
// histories can tell).  Per format: corrupt variants B of a sample file (bits
// of 1-bit fields and first bits of other small fields inverted, so that
// validating readers fail) are decoded
//
//	P1: after a FORCED decode of the intact file      P2: on their own
//	P3: forced, after a PLAIN decode of the intact file  P4: forced, on their own
//
// in fresh processes; B's results must agree between P1/P2 and between P3/P4.
func TestOptionLeak(t *testing.T) {
	buildPool()
	exe, err := os.Executable()
	if err != nil {
		t.Skip("no executable path")
	}
	seen := map[string]bool{}
	idx := 0
	for _, fj := range treeJobs {
		key := fj.Format
		if key == "probe" {
			dir := filepath.Dir(fj.Path)
			for strings.HasSuffix(dir, "/testdata") || strings.Contains(filepath.Base(dir), "testdata") {
				dir = filepath.Dir(dir)
			}
			key = "probe:" + filepath.Base(dir)
		}
		if seen[key] || len(dataOf(fj.Path)) == 0 {
			continue
		}
		// the first (smallest) file of every bucket on its own format
		seen[key] = true
		idx++
		if !harness.Mine(idx) {
			continue
		}
		top, _, _ := fqx.Decode(context.Background(), dataOf(fj.Path), fj.Format, false)
		if top == nil {
			continue
		}
		var ones, others, bytes8 []int64
		fqx.Walk(top, func(v *decode.Value, depth int) {
			if _, ok := v.V.(*decode.Compound); ok || v.RootReader != top.RootReader {
				return
			}
			if s, ok := v.V.(scalar.Scalarable); ok && s.ScalarFlags().IsSynthetic() {
				return
			}
			if v.Range.Len == 8 && v.Range.Start%8 == 0 {
				bytes8 = append(bytes8, v.Range.Start)
			}
			switch {
			case v.Range.Len == 1:
				ones = append(ones, v.Range.Start)
			case v.Range.Len >= 2 && v.Range.Len <= 32:
				others = append(others, v.Range.Start)
			}
		})
		pick := func(xs []int64, n int, salt uint64) []int64 {
			if len(xs) <= n {
				return xs
			}
			var out []int64
			h := harness.HashInts(salt, uint64(idx), harness.E.Seed)
			for i := 0; i < n; i++ {
				h = h*6364136223846793005 + 1442695040888963407
				out = append(out, xs[int((h>>33)%uint64(len(xs)))])
			}
			return out
		}
		var flips []int64
		flips = append(flips, pick(ones, harness.N(10, 64), 1)...)
		flips = append(flips, pick(others, harness.N(6, 64), 2)...)
		if len(flips) == 0 {
			continue
		}
		var plainB, forcedB []job
		for _, k := range flips {
			b := fj
			b.Flip = []int64{k}
			plainB = append(plainB, b)
			b.Force = true
			forcedB = append(forcedB, b)
		}
		// whole-byte fields (type tags, opcodes, kinds) set to other small values:
		// reaches the branches of a decoder the sample itself does not take
		for _, k := range pick(bytes8, harness.N(4, 64), 3) {
			for _, val := range []int64{0, 1, 2, 255} {
				b := fj
				b.Set = [][2]int64{{k, val}}
				plainB = append(plainB, b)
				b.Force = true
				forcedB = append(forcedB, b)
			}
		}
		aForced, aPlain := fj, fj
		aForced.Force = true
		type run struct {
			name   string
			with   []job
			alone  []job
			prefix int
		}
		for _, r := range []run{
			{"plain-after-forced", append([]job{aForced}, plainB...), plainB, 1},
			{"forced-after-plain", append([]job{aPlain}, forcedB...), forcedB, 1},
		} {
			with, ok1 := seqRun(exe, r.with)
			alone, ok2 := seqRun(exe, r.alone)
			if !ok1 || !ok2 {
				harness.ExtraAdd("option_leak_inconclusive", 1)
				continue
			}
			harness.Count(harness.HashInts(88, uint64(idx), harness.E.Seed, harness.HashBytes([]byte(r.name))), true, "option-leak-pair-of-processes", "leak-"+r.name)
			harness.ExtraAdd("option_leak_corrupt_variants", int64(len(r.alone)))
			for i, j := range r.alone {
				if with[i+r.prefix] != alone[i] {
					if harness.Violate(t.Name(), "result-depends-on-option-of-earlier-job:"+r.name, fmt.Sprintf("job %s gave %s after a decode of the intact file with the other force setting, %s in a process that had not seen one", j.key(), with[i+r.prefix], alone[i]), map[string]any{"with": r.with, "alone": r.alone}) {
						t.Errorf("%s: %s", r.name, j.key())
					}
					break
				}
			}
		}
	}
}

// lone runs in fresh processes for a sample of jobs
func TestLoneRuns(t *testing.T) {
	buildPool()
	exe, err := os.Executable()
	if err != nil {
		t.Skip("no executable path")
	}
	n := harness.N(3, 40)
	all := append(append([]job{}, mainJobs...), treeJobs...)
	seed := harness.SeedFor("TestLoneRuns")
	for k := 0; k < n; k++ {
		seed = seed*6364136223846793005 + 1442695040888963407
		j := all[int((seed>>33)%uint64(len(all)))]
		if k%2 == 0 {
			j = mainJobs[int((seed>>33)%uint64(len(mainJobs)))]
		}
		b, _ := json.Marshal(j)
		cmd := exec.Command(exe, "-test.run=^$")
		cmd.Env = append(os.Environ(), "VERIF_C18_LONE="+string(b), "VERIF_FRAG=", "GORACE=halt_on_error=0 atexit_sleep_ms=0")
		out, err := cmd.CombinedOutput()
		lone := ""
		for _, l := range strings.Split(string(out), "\n") {
			if strings.HasPrefix(l, "LONE-HASH ") {
				lone = strings.TrimPrefix(l, "LONE-HASH ")
			}
		}
		if err != nil || lone == "" {
			harness.ExtraAdd("lone_run_inconclusive", 1)
			continue
		}
		got := runJob(j)
		harness.Count(harness.HashBytes(b), true, "lone-run-compared", "lone-"+j.Kind)
		if got != lone {
			if harness.Violate(t.Name(), "result-differs-from-lone-run:"+j.Kind, fmt.Sprintf("job %s: in this process (after other work) %s, alone in a fresh process %s", j.key(), got, lone), j) {
				t.Errorf("job %s differs from its lone run", j.key())
			}
		}
	}
}
