// C13 — every function fq adds is total over jq values.
//
// Functions are enumerated at run time (Go registrations incl. `_` prefixed,
// public jq definitions = fq's scope minus the reference engine's builtins).
// Each is applied to inputs and arguments from a pool of boundary values.
// Oracle: the evaluation returns values or a catchable jq error; a Go panic
// reaching the harness or the death of the worker process is a violation.
package c13

import (
	"context"
	"encoding/json"
	"fmt"
	"os"
	"runtime/debug"
	"sort"
	"strconv"
	"strings"
	"testing"
	"time"

	"github.com/wader/fq/pkg/interp"
	"github.com/wader/fq/verif/lib/fqx"
	"github.com/wader/fq/verif/lib/harness"
	"github.com/wader/fq/verif/lib/vos"
)

func TestMain(m *testing.M) {
	harness.Describe(
		"functions = every Go registration in interp.DefaultRegistry.EnvFuncFns with every arity in its range (including `_`-prefixed ones) + every public name/arity in fq's `scope` that the reference gojq engine does not define; cases = function x input x argument tuple over a pool of ~60 boundary values per jq type (null, booleans, 0, -1, 255, 256, 2^31, 2^53+1, 2^63-1, 2^63, 2^64, -2^63, 2^200, 0.5, -0.0, 1e308, nan, infinite, empty/8KiB/NUL strings, invalid-UTF-8 and unaligned binaries, empty and nested arrays/objects, decode values, an open file, option objects with missing/mistyped/negative/huge members). Arity 0: every input. Arity 1: every input x every argument in the thorough tier, a seed-derived sample of pairs per function in the quick tier. Arity >= 2: seed-derived tuples. Evaluated as `INPUT | try [limit(50; F(ARGS))] catch .` in batches inside crash-isolated workers with a virtual OS (empty stdin, readline -> EOF). Non-trivial: the call produced a value or an error other than the generic argument/type error; distinct = (function/arity, input index, argument indexes). Further families: 4000 generated option objects x 29 option-taking functions x 7 inputs; query values (ASTs of 42 programs) with every node removed or replaced, handed to _query_tostring; malformed interpreter states set before _eval.",
		"a batch that exceeds its 20 s context deadline is re-run case by case with 5 s deadlines; a case that still exceeds it is counted as timeout_inconclusive (jq-level non-termination is not a runtime fault)",
		"an out-of-memory death is re-run alone under a 48 GiB limit and counts only if the process dies again (huge-but-honourable option values are honoured or rejected without the harness limit deciding)",
		"signatures are 'fault class:fq function of the fault' (one root cause reachable through many functions is one finding)",
		"option values whose honouring needs gigabytes of output (indent 1e9) are not in the pool: running out of memory while producing a legitimately huge result is not a fault of the function; indent 2^20 is",
	)
	harness.Watchdog(60 * time.Second)
	harness.Main(m, "C13")
}

// ---------------------------------------------------------------------------
// value pool (jq source; evaluated once per interpreter, bound to $P)

var poolSrc = []string{
	`null`, `true`, `false`,
	`0`, `-1`, `1`, `255`, `256`, `2147483648`, `9007199254740993`, `9223372036854775807`, `9223372036854775808`,
	`18446744073709551616`, `-9223372036854775808`, `1606938044258990275541962092341162602522202993782792835301376`,
	// powers of two: products and shifts of sizes wrap to 0 or to the sign bit (seed C13-5: unit * pad_to_units == 2^64)
	`4294967296`, `1152921504606846976`, `2305843009213693952`, `4611686018427387904`, `-4611686018427387904`, `65536`,
	`0.5`, `-0.0`, `1e308`, `-1e308`, `nan`, `infinite`, `-infinite`, `1.5`, `1e11`, `1e18`,
	`""`, `"a"`, `("a" * 8192)`, `"a\u0000b"`, `"å中😀"`, `"mp3"`, `"."`, `"f"`, `"[1,2"`,
	`([255,254,0] | tobytes)`, `([1,2,3] | tobits)`,
	// deeply nested, truncated documents: recursive decoders fail hundreds of frames deep
	`([range(300) | 0x81] | tobytes)`, `([range(300) | 0x91] | tobytes)`, `("l" * 2000)`, `("[" * 2000)`, `("<a>" * 500)`, `([1,2,3,4] | tobits[3:17])`, `([] | tobytes)`,
	`[]`, `[1,[2,[3]]]`, `[[]]`, `["a",1,null]`, `[256]`, `[-1]`,
	`{}`, `{"a":{"b":[1]}}`, `{"":1}`, `{"":{"":[{"":1}]}, "#text": "t", "-a": "v"}`,
	`("[1,{\"a\":2}]" | json)`, `("[1,{\"a\":2}]" | json | .[1])`,
	`("null" | json)`, `("-1.5" | json)`, `("\"s\"" | json)`, `("true" | json)`, `("{}" | json)`, `("[]" | json)`,
	`([0x83,0xa1,97,1,0xa1,98,0x92,0xcb,0x3f,0xf0,0,0,0,0,0,0,0xc0,0xa1,99,0xc4,2,0xde,0xad] | tobytes | msgpack)`,
	`([0x83,0xa1,97,1,0xa1,98,0x92,0xcb,0x3f,0xf0,0,0,0,0,0,0,0xc0,0xa1,99,0xc4,2,0xde,0xad] | tobytes | msgpack | .pairs[0].key)`,
	// decode values with string scalars whose byte length, rune count and the
	// display limits (string_truncate 50 by default) fall apart (seed C13-4)
	`([0xd9, 51, ("あ" * 17)] | tobytes | msgpack)`, `([0xd9, 120, ("😀" * 30)] | tobytes | msgpack)`, `([0xd9, 200, ("é" * 100)] | tobytes | msgpack)`,
	`([0x82, 0xd9, 51, ("あ" * 17), 0xd9, 60, ("é" * 30), 0xd9, 49, ("a" * 46), "中", 0xc4, 3, 0xe3, 0x81, 0x82] | tobytes | msgpack)`,
	`("f" | open)`,
	`{"indent":-1}`, `{"indent":1048576}`, `{"indent":-3, "array": true}`, `{"line_bytes":-5}`, `{"line_bytes":0}`, `{"bits_format":"nope"}`,
	`{"unit":4294967296, "pad_to_units":4294967296}`, `{"unit":8, "pad_to_units":2305843009213693952}`, `{"line_bytes":4294967296, "display_bytes":4294967296}`,
	`{"unit":0}`, `{"unit":-8}`, `{"display_bytes":-1, "depth":-1}`, `{"addrbase":1, "sizebase":99}`, `{"force":"x", "skip_gaps": 5}`,
	`{"indent":1e18}`, `{"line_bytes":1e18, "display_bytes": 1e18}`, `{"attribute_prefix":""}`, `{"attribute_prefix":"", "indent": 1, "array": true}`, `{"depth": 1e18, "addrbase": 1e18}`,
	`{"indent":"x", "comma":"", "comment":"ab"}`, `{"array":1, "seq":"x", "attribute_prefix": 1}`, `{"width": -1, "color": 7, "unicode": null}`,
}

func poolExpr() string { return "[" + strings.Join(poolSrc, ",\n") + "]" }

// ---------------------------------------------------------------------------
// function enumeration

type fn struct {
	Name  string
	Arity int
	Go    bool
}

func (f fn) id() string { return f.Name + "/" + strconv.Itoa(f.Arity) }

func newInterp() *fqx.Interp {
	x, err := fqx.NewInterp()
	if err != nil {
		panic(err)
	}
	x.OS.Files["f"] = []byte("\x83\xa1a\x01\xa1b\x02\xa1c\x03 some file bytes")
	x.OS.Files["a.jq"] = []byte("def a: 1;")
	x.OS.StdinData = []byte{}
	return x
}

func listFunctions() []fn {
	seen := map[string]bool{}
	var out []fn
	x := newInterp()
	defer x.Close()
	for _, ef := range interp.DefaultRegistry.EnvFuncFns {
		f := ef(x.I)
		for a := f.MinArity; a <= f.MaxArity; a++ {
			e := fn{Name: f.Name, Arity: a, Go: true}
			if !seen[e.id()] {
				seen[e.id()] = true
				out = append(out, e)
			}
		}
	}
	ref := map[string]bool{}
	if outs, rerr, cerr := fqx.RawGojq(context.Background(), "builtins", nil); rerr == nil && cerr == nil && len(outs) == 1 {
		if arr, ok := outs[0].([]any); ok {
			for _, v := range arr {
				if s, ok := v.(string); ok {
					ref[s] = true
				}
			}
		}
	}
	outs, rerr, cerr := x.Eval(context.Background(), nil, "scope")
	if rerr != nil || cerr != nil || len(outs) != 1 {
		panic(fmt.Sprint("scope failed: ", rerr, cerr))
	}
	for _, v := range outs[0].([]any) {
		s, _ := v.(string)
		i := strings.LastIndex(s, "/")
		if i < 0 || strings.HasPrefix(s, "_") || strings.HasPrefix(s, "$") || ref[s] {
			continue
		}
		a, _ := strconv.Atoi(s[i+1:])
		e := fn{Name: s[:i], Arity: a}
		if !seen[e.id()] {
			seen[e.id()] = true
			out = append(out, e)
		}
	}
	sort.Slice(out, func(i, j int) bool { return out[i].id() < out[j].id() })
	harness.Extra("functions_enumerated", len(out))
	harness.Extra("reference_builtins_excluded", len(ref))
	return out
}

// ---------------------------------------------------------------------------
// cases

type caseT struct {
	Fn   string `json:"fn"`
	Ar   int    `json:"arity"`
	In   int    `json:"input"`
	Args []int  `json:"args"`
	// raw form (option-pair cases): input and call as jq text
	RawIn   string `json:"raw_input,omitempty"`
	RawCall string `json:"raw_call,omitempty"`
}

const rawSep = "\x1f"

func (c caseT) desc() string {
	if c.RawCall != "" {
		return "raw" + rawSep + c.RawIn + rawSep + c.RawCall
	}
	s := fmt.Sprintf("%s/%d|%d", c.Fn, c.Ar, c.In)
	for _, a := range c.Args {
		s += "|" + strconv.Itoa(a)
	}
	return s
}

func (c caseT) expr() string {
	if c.RawCall != "" {
		return fmt.Sprintf(`(try (%s | [limit(50; %s)] | {n: length}) catch {e: (if type == "string" then .[0:60] else "non-string error" end)})`, c.RawIn, c.RawCall)
	}
	call := c.Fn
	if len(c.Args) > 0 {
		var as []string
		for _, a := range c.Args {
			as = append(as, fmt.Sprintf("$P[%d]", a))
		}
		call += "(" + strings.Join(as, "; ") + ")"
	}
	return fmt.Sprintf(`(try ($P[%d] | [limit(50; %s)] | {n: length}) catch {e: (if type == "string" then .[0:60] else "non-string error" end)})`, c.In, call)
}

func (c caseT) human() string {
	if c.RawCall != "" {
		return c.RawIn + " | " + c.RawCall
	}
	call := c.Fn
	if len(c.Args) > 0 {
		var as []string
		for _, a := range c.Args {
			as = append(as, poolSrc[a])
		}
		call += "(" + strings.Join(as, "; ") + ")"
	}
	in := poolSrc[c.In]
	if len(in) > 80 {
		in = in[:80] + "..."
	}
	return in + " | " + call
}

type result struct {
	sig, msg string
	timeout  bool
	outs     []any
}

// evalCases runs the cases in one Eval; a Go panic is caught.
func evalCases(x *fqx.Interp, cs []caseT, d time.Duration) (r result) {
	var sb strings.Builder
	sb.WriteString(poolExpr())
	sb.WriteString(" as $P | [")
	for i, c := range cs {
		if i > 0 {
			sb.WriteString(",\n")
		}
		sb.WriteString(c.expr())
	}
	sb.WriteString("]")
	ctx, cancel := context.WithTimeout(context.Background(), d)
	defer cancel()
	defer func() {
		if p := recover(); p != nil {
			st := string(debug.Stack())
			r.sig = faultClass(p) + ":" + harness.FaultFrame(st)
			if len(st) > 5000 {
				st = st[:5000]
			}
			r.msg = fmt.Sprintf("Go panic: %v\n%s", p, st)
		}
	}()
	outs, rerr, cerr := x.Eval(ctx, nil, sb.String())
	if cerr != nil {
		r.sig, r.msg = "harness-compile-error", fmt.Sprintf("batch did not compile: %v", cerr)
		return r
	}
	if ctx.Err() != nil {
		r.timeout = true
		return r
	}
	if rerr != nil {
		// an uncaught error escaping try: only possible for halt-like errors
		r.outs = nil
		return r
	}
	if len(outs) == 1 {
		if arr, ok := outs[0].([]any); ok {
			r.outs = arr
		}
	}
	return r
}

func faultClass(r any) string {
	s := fmt.Sprint(r)
	switch {
	case strings.Contains(s, "index out of range"):
		return "index-out-of-range"
	case strings.Contains(s, "slice bounds out of range"):
		return "slice-bounds"
	case strings.Contains(s, "nil pointer dereference"):
		return "nil-dereference"
	case strings.Contains(s, "makeslice"):
		return "makeslice"
	case strings.Contains(s, "interface conversion"):
		return "type-assertion"
	case strings.Contains(s, "divide by zero"):
		return "divide-by-zero"
	case strings.Contains(s, "negative shift"):
		return "negative-shift"
	case strings.Contains(s, "negative"):
		return "negative-size"
	}
	if len(s) > 40 {
		s = s[:40]
	}
	return "panic-" + strings.Map(func(r rune) rune {
		if r >= 'a' && r <= 'z' || r >= 'A' && r <= 'Z' {
			return r
		}
		return '-'
	}, s)
}

var genericErr = []string{"cannot ", "can't be a", "expected a", "expected an", "argument", "not defined", "invalid path", "is not valid in"}

func nontrivial(out any) bool {
	m, ok := out.(map[string]any)
	if !ok {
		return false
	}
	if _, ok := m["n"]; ok {
		return true
	}
	e, _ := m["e"].(string)
	for _, g := range genericErr {
		if strings.Contains(e, g) {
			return false
		}
	}
	return true
}

type runner struct {
	t *testing.T
	x *fqx.Interp
}

func (r *runner) interp() *fqx.Interp {
	if r.x == nil {
		r.x = newInterp()
	}
	return r.x
}

func (r *runner) reset() {
	if r.x != nil {
		r.x.Close()
		r.x = nil
	}
}

func (r *runner) violate(c caseT, res result) {
	// one root cause is reachable through many functions: the signature is
	// the fault, the function is in the message
	sig := res.sig
	msg := fmt.Sprintf("%s\n%s", c.human(), res.msg)
	if harness.Violate(r.t.Name(), sig, msg, c) {
		r.t.Errorf("[%s] %s", sig, c.human())
	}
}

func (r *runner) single(c caseT) {
	d := c.desc()
	if harness.Skipped(d) {
		harness.ExtraAdd("skipped_after_crash", 1)
		return
	}
	harness.Journal(d)
	res := evalCases(r.interp(), []caseT{c}, 5*time.Second)
	harness.JournalClear()
	switch {
	case res.sig != "":
		r.reset()
		harness.Count(harness.HashBytes([]byte(d)), true, "go-panic")
		r.violate(c, res)
	case res.timeout:
		r.reset()
		harness.ExtraAdd("timeout_inconclusive", 1)
		harness.Count(harness.HashBytes([]byte(d)), false, "timeout")
	default:
		nt := len(res.outs) == 1 && nontrivial(res.outs[0])
		r.count(c, nt, res)
	}
}

func (r *runner) count(c caseT, nt bool, res result) {
	lbl := "arity-" + strconv.Itoa(c.Ar)
	if c.RawCall != "" {
		lbl = "option-pairs"
	}
	harness.Count(harness.HashBytes([]byte(c.desc())), nt, lbl)
	if nt && c.Ar >= 1 && harness.WantSample("case", 8) {
		harness.Sample("case", 8, map[string]any{"call": c.human(), "case": c})
	}
}

// batch runs cases together; on panic, timeout or after a process death of the
// same batch it falls back to singles.
func (r *runner) batch(id string, cs []caseT) {
	if len(cs) == 0 {
		return
	}
	bid := "batch:" + id
	if harness.Skipped(bid) {
		// the process died inside this batch earlier: find the case
		for _, c := range cs {
			r.single(c)
		}
		return
	}
	harness.Journal(bid)
	res := evalCases(r.interp(), cs, 20*time.Second)
	harness.JournalClear()
	if res.sig != "" || res.timeout || len(res.outs) != len(cs) {
		r.reset()
		for _, c := range cs {
			r.single(c)
		}
		return
	}
	for i, c := range cs {
		r.count(c, nontrivial(res.outs[i]), res)
	}
}

// stateful functions get a fresh interpreter per batch
var freshPerBatch = map[string]bool{"_global_state": true, "_registry": false}

func splitmix(x uint64) uint64 {
	x += 0x9e3779b97f4a7c15
	x = (x ^ (x >> 30)) * 0xbf58476d1ce4e5b9
	x = (x ^ (x >> 27)) * 0x94d049bb133111eb
	return x ^ (x >> 31)
}

func casesFor(f fn) []caseT {
	n := len(poolSrc)
	var cs []caseT
	switch {
	case f.Arity == 0:
		for i := 0; i < n; i++ {
			cs = append(cs, caseT{Fn: f.Name, Ar: 0, In: i})
		}
	case f.Arity == 1 && harness.Thorough():
		for i := 0; i < n; i++ {
			for a := 0; a < n; a++ {
				cs = append(cs, caseT{Fn: f.Name, Ar: 1, In: i, Args: []int{a}})
			}
		}
	default:
		// seed-derived tuples: every input and every argument value occurs,
		// plus extra random tuples
		total := harness.N(12*n, 100*n)
		if f.Arity >= 2 && harness.Thorough() {
			total = 200 * n
		}
		h := splitmix(harness.E.Seed ^ harness.HashBytes([]byte(f.id())))
		seen := map[string]bool{}
		for k := 0; k < total; k++ {
			c := caseT{Fn: f.Name, Ar: f.Arity, In: k % n}
			for a := 0; a < f.Arity; a++ {
				h = splitmix(h + uint64(k))
				if a == (k/n)%f.Arity && k < 2*n*f.Arity {
					// systematic sweep of one argument position
					c.Args = append(c.Args, (k+k/n)%n)
				} else {
					c.Args = append(c.Args, int(h%uint64(n)))
				}
			}
			if d := c.desc(); !seen[d] {
				seen[d] = true
				cs = append(cs, c)
			}
		}
	}
	return cs
}

func TestFunctions(t *testing.T) {
	fns := listFunctions()
	r := &runner{t: t}
	defer r.reset()
	resume := harness.EnumResume(t.Name())
	var nb int64
	goFns := 0
	for i, f := range fns {
		if f.Go {
			goFns++
		}
		if !harness.Mine(i) {
			continue
		}
		cs := casesFor(f)
		const bs = 120
		for off := 0; off < len(cs); off += bs {
			end := min(off+bs, len(cs))
			nb++
			if nb <= resume {
				// a restart resumes at the batch that was open (it is in the
				// skip list and runs case by case now)
				if nb < resume {
					continue
				}
			}
			harness.EnumAt(t.Name(), nb)
			if freshPerBatch[f.Name] {
				r.reset()
			}
			r.batch(fmt.Sprintf("%s:%d", f.id(), off), cs[off:end])
		}
	}
	harness.Extra("go_registered_name_arity_pairs", goFns)
}

// ---------------------------------------------------------------------------
// option objects: pairs of (key, value) members
//
// The fixed pool holds a few hand-made option objects; defects that need TWO
// option members at once (a renderer chosen by one option using the unclamped
// value of another) are not reached by it.  This test builds option objects
// from all option keys x boundary values, six members each, with a seed-derived
// choice that is biased to keys of the same family, and applies every
// option-taking function to a few inputs with each object.

var optionKeysDisplay = []string{"addrbase", "sizebase", "bits_format", "line_bytes", "display_bytes", "depth", "verbose", "color", "unicode", "array_truncate", "string_truncate", "width", "compact", "raw_string", "skip_gaps", "value_output", "byte_colors", "colors"}
var optionKeysOther = []string{"indent", "array", "seq", "attribute_prefix", "comma", "comment", "force", "unit", "keep_range", "pad_to_units", "decode_group", "join_string", "raw_output", "slurp", "null_input", "string_input", "include_path", "completion_timeout", "decode_progress", "filenames", "expr", "repl", "arg", "argjson", "show_help"}
var optionValues = []string{`-1`, `0`, `1`, `2`, `37`, `255`, `1e18`, `0.5`, `""`, `"nope"`, `null`, `true`, `false`, `[]`, `{}`, `"snippet"`, `"hex"`, `"md5"`, `"base64"`, `"truncate"`, `"byte_array"`, `"string"`}

var optionFns = []string{"tovalue", "toactual", "tosym", "todescription", "d", "dd", "dv", "da", "ddv", "display", "hd", "hexdump", "tojson", "to_xml", "to_toml", "to_yaml", "to_csv", "to_jq", "from_xml", "from_csv", "_tovalue", "_display", "_hexdump", "_print_color_json", "_tobits", "options", "_to_json", "_to_xml", "_to_toml", "_to_yaml", "_to_csv"}
var optionInputs = []string{
	`([1,2,3] | tobytes)`,
	`([0x83,0xa1,97,1,0xa1,98,0x92,0xcb,0x3f,0xf0,0,0,0,0,0,0,0xc0,0xa1,99,0xc4,2,0xde,0xad] | tobytes | msgpack)`,
	`{"a":[1,{"b":"x"}], "doc": {"-k":"v","c":["x","y"]}}`,
	`[["a","b"],["c","d"]]`,
	`"<a x=\"1\"><b>t</b></a>"`,
	`([1,2,3,4,5] | tobits[3:29])`,
	`([0x82, 0xd9, 51, ("あ" * 17), 0xd9, 60, ("é" * 30), 0xd9, 49, ("a" * 46), "中", 0xc4, 3, 0xe3, 0x81, 0x82] | tobytes | msgpack)`,
}

func TestOptionPairs(t *testing.T) {
	x0 := newInterp()
	have := map[string]bool{}
	if outs, rerr, cerr := x0.Eval(context.Background(), nil, "scope"); rerr == nil && cerr == nil && len(outs) == 1 {
		for _, v := range outs[0].([]any) {
			if s, ok := v.(string); ok {
				have[s] = true
			}
		}
	}
	x0.Close()
	var fns []string
	for _, f := range optionFns {
		if have[f+"/1"] {
			fns = append(fns, f)
		}
	}
	harness.Extra("option_taking_functions", len(fns))
	nObj := harness.N(4000, 60000)
	r := &runner{t: t}
	defer r.reset()
	h := splitmix(harness.E.Seed ^ 0x6f7074)
	next := func(n int) int {
		h = splitmix(h)
		return int(h % uint64(n))
	}
	resume := harness.EnumResume(t.Name())
	var nb int64
	for oi := 0; oi < nObj; oi++ {
		// the object is drawn for every index so that all shards agree
		keys := optionKeysDisplay
		if oi%2 == 1 {
			keys = append(append([]string{}, optionKeysDisplay...), optionKeysOther...)
		}
		members := map[string]string{}
		for len(members) < 6 {
			members[keys[next(len(keys))]] = optionValues[next(len(optionValues))]
		}
		ks := make([]string, 0, len(members))
		for k := range members {
			ks = append(ks, k)
		}
		sort.Strings(ks)
		var sb strings.Builder
		sb.WriteString("{")
		for i, k := range ks {
			if i > 0 {
				sb.WriteString(", ")
			}
			fmt.Fprintf(&sb, "%q: %s", k, members[k])
		}
		sb.WriteString("}")
		obj := sb.String()
		if !harness.Mine(oi) {
			continue
		}
		var cs []caseT
		for _, f := range fns {
			for _, in := range optionInputs {
				cs = append(cs, caseT{Fn: f, Ar: 1, RawIn: in, RawCall: f + "(" + obj + ")"})
			}
		}
		nb++
		if nb < resume {
			continue
		}
		harness.EnumAt(t.Name(), nb)
		r.batch(fmt.Sprintf("optpairs:%d", oi), cs)
	}
	harness.Extra("option_objects_per_run", nObj)
}

// regression seeds of repaired defects and of defects named in the design
func TestSeeds(t *testing.T) {
	if harness.E.Shard != 0 {
		t.Skip("seeds run in shard 0")
	}
	r := &runner{t: t}
	defer r.reset()
	idx := func(src string) int {
		for i, s := range poolSrc {
			if s == src {
				return i
			}
		}
		t.Fatalf("pool value %q missing", src)
		return 0
	}
	seeds := []caseT{
		{Fn: "bsl", Ar: 2, In: idx(`1`), Args: []int{idx(`1`), idx(`-1`)}},
		{Fn: "bsr", Ar: 2, In: idx(`1`), Args: []int{idx(`1`), idx(`-1`)}},
		{Fn: "bsl", Ar: 2, In: idx(`1`), Args: []int{idx(`1`), idx(`9223372036854775808`)}},
		{Fn: "bsl", Ar: 2, In: idx(`1`), Args: []int{idx(`1`), idx(`1e11`)}},
		{Fn: "to_toml", Ar: 1, In: idx(`{"a":{"b":[1]}}`), Args: []int{idx(`{"indent":-1}`)}},
		{Fn: "to_xml", Ar: 1, In: idx(`{"a":{"b":[1]}}`), Args: []int{idx(`{"indent":-3, "array": true}`)}},
		{Fn: "_tobits", Ar: 1, In: idx(`1`), Args: []int{idx(`{"unit":0}`)}},
		{Fn: "_stdio_read", Ar: 2, In: idx(`null`), Args: []int{idx(`"f"`), idx(`-1`)}},
	}
	for _, c := range seeds {
		r.single(c)
	}
	// two steps: state set from jq, then a function that reads it (a seeding
	// agent's side finding: a non-string include path was an explicit panic;
	// repaired in 2167189f).  The interpreter is thrown away afterwards.
	for _, st := range []string{`{include_paths:[1]}`, `{include_paths:"x"}`, `{include_paths:[null,{}]}`, `{slurps:1}`, `{slurps:{a:[]}}`, `[]`, `null`} {
		r.single(caseT{Fn: "_eval", Ar: 2, RawIn: `null`, RawCall: `(_global_state(` + st + `) | try _eval("include \"x\"; 1"; {}) catch "E"), (try ("1 | slurp(\"a\")" | _eval(.; {})) catch "E"), (try ("$a" | _eval(.; {})) catch "E")`})
		r.reset()
	}
}

// Query values (the AST objects of _query_fromstring) with one node removed or
// replaced: _query_tostring hands them to the engine's printer, which assumes
// a well formed query (found by a seeding agent: {term:{type:"TermTypeFunc"}}
// was a nil dereference; repaired in 457f2797).  Every path of the AST of ~40
// programs that cover every term type x {delete, null, string, array, object}.
var astPrograms = []string{
	`.`, `..`, `.a`, `.a.b[0]`, `.[1:2]`, `.[]?`, `."k"`, `.["k"]?`, `$x`, `$__loc__`, `f`, `f(1; .a)`, `-1`, `1 + 2 * 3`, `.a // "d"`, `1 as $x | $x`,
	`. as [$a, {b: $c}] | $a`, `. as [$a] ?// $a | $a`, `if . then 1 elif .a then 2 else 3 end`, `try error("x") catch .`, `.a?`, `reduce .[] as $x (0; . + $x)`,
	`foreach .[] as $x (0; . + $x; [.])`, `label $out | 1, break $out`, `def f(g; $a): g + $a; f(1; 2)`, `[1, 2]`, `{a: 1, "b": 2, (.c): 3, $x, @base64 "k": 4}`,
	`"a\(1 + 2)b"`, `@base64 "x\(.)"`, `@json`, `.a = 1 | .b |= . + 1 | .c += 2`, `.[] as {a: $x} | $x`, `1, 2 | 3`, `not and true or false`, `. == 1 and . != 2`,
	`import "a" as a; include "b"; a::f`, `limit(3; repeat(1))`, `.. |= (numbers | . + 1)`, `path(.a[].b?)`, `{} | .a.b.c`, `[.[] | select(. > 1)]`, `.a[1:][0]`,
}

func TestQueryASTs(t *testing.T) {
	r := &runner{t: t}
	defer r.reset()
	muts := []string{`delpaths([$p])`, `setpath($p; null)`, `setpath($p; "x")`, `setpath($p; [])`, `setpath($p; {})`, `setpath($p; {"type": "TermTypeFunc"})`, `setpath($p; 1)`}
	n := 0
	for pi, prog := range astPrograms {
		for mi, m := range muts {
			n++
			if !harness.Mine(n) {
				continue
			}
			pj, _ := json.Marshal(prog)
			c := caseT{Fn: "_query_tostring", Ar: 0,
				RawIn:   "(" + string(pj) + " | _query_fromstring)",
				RawCall: `(. as $q | [paths] as $ps | [$ps[] as $p | ($q | ` + m + `) | try (_query_tostring | 1) catch 0] | [length, add])`}
			_ = pi
			_ = mi
			r.single(c)
		}
	}
}

// replay of one case descriptor
func TestReplay(t *testing.T) {
	test, raw, ok := harness.LoadReplayCase()
	if !ok {
		t.Skip("not replaying")
	}
	var c caseT
	if test == "process-death" {
		var j struct {
			Journal string `json:"journal"`
		}
		_ = json.Unmarshal(raw, &j)
		if strings.HasPrefix(j.Journal, "batch:") {
			t.Skipf("journal names a whole batch (%s); the restarted shard narrows it down", j.Journal)
		}
		if strings.HasPrefix(j.Journal, "raw"+rawSep) {
			rp := strings.Split(j.Journal, rawSep)
			if len(rp) == 3 {
				c.RawIn, c.RawCall = rp[1], rp[2]
			}
		}
		parts := strings.Split(j.Journal, "|")
		if c.RawCall != "" {
			// parsed above
		} else if len(parts) < 2 {
			t.Skipf("unparseable journal %q", j.Journal)
		}
		if c.RawCall == "" {
			k := strings.LastIndex(parts[0], "/")
			c.Fn = parts[0][:k]
			c.Ar, _ = strconv.Atoi(parts[0][k+1:])
			c.In, _ = strconv.Atoi(parts[1])
			for _, p := range parts[2:] {
				a, _ := strconv.Atoi(p)
				c.Args = append(c.Args, a)
			}
		}
	} else if err := json.Unmarshal(raw, &c); err != nil || (c.Fn == "" && c.RawCall == "") {
		t.Skip("no case in replay file")
	}
	fmt.Fprintf(os.Stderr, "replaying %s\n", c.human())
	x := newInterp()
	defer x.Close()
	res := evalCases(x, []caseT{c}, 30*time.Second)
	if res.sig != "" {
		t.Errorf("[%s] %s\n%s", res.sig, c.human(), res.msg)
	}
}

var _ = vos.New
