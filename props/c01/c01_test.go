// C01 — bit-exact reads through any composition of bit and file readers.
//
// Oracle: a reference bit string ([]byte of 0/1, own arithmetic, no bitio)
// computed from the same reader expression by a tiny interpreter.
package c01

import (
	"bytes"
	"context"
	"encoding/hex"
	"errors"
	"fmt"
	"io"
	"os"
	"path/filepath"
	"testing"

	"github.com/wader/fq/internal/aheadreadseeker"
	"github.com/wader/fq/internal/bitiox"
	"github.com/wader/fq/internal/ctxreadseeker"
	"github.com/wader/fq/internal/progressreadseeker"
	"github.com/wader/fq/pkg/bitio"
	"github.com/wader/fq/verif/lib/harness"
	"pgregory.net/rapid"
)

func TestMain(m *testing.M) {
	harness.Describe(
		"reader expressions (depth<=4) over random bytes: buffer / raw IOBitReadSeeker / temp file / fq's open-file stack (ctx->progress->ahead->bit) / zero / section / range / multi / bit->byte->bit re-entry, driven by a rapid state machine of ReadBits, ReadBitsAt, SeekBits(start|current|end), Clone, ReadFull, ReadAtFull, then byte views (IOReader, IOReadSeeker, LimitReader, CopyBits, Copy); writers Buffer and IOBitWriter; exhaustive Read64/Write64/ReverseBytes64 grid; aheadreadseeker alone vs bytes.Reader with short reads and a transient fault. Non-trivial: history has an unaligned read (offset%8!=0 or n%8!=0) and (expression depth>=2 or a seek happened); distinct = hash of expression + op transcript.",
		"out-of-range seek targets beyond the end may fail or succeed-then-read-nothing; negative targets must fail",
		"Read(p) with len(p)==0 is not generated; section windows outside the parent are not generated (no fq caller can build one)",
		"byte-view Seek relative to the end or the current position is only checked on sources whose bit length is a multiple of 8 (the position inside the zero-padded final byte is not defined by the API); Seek from start is checked everywhere",
	)
	harness.Main(m, "C01")
}

// ---------------------------------------------------------------------------
// reference bit strings

type bits []byte // one element per bit, 0 or 1

func bitsOf(b []byte, n int64) bits {
	out := make(bits, n)
	for i := int64(0); i < n; i++ {
		out[i] = (b[i>>3] >> (7 - uint(i&7))) & 1
	}
	return out
}

func (b bits) pack() []byte {
	out := make([]byte, (len(b)+7)/8)
	for i, v := range b {
		if v != 0 {
			out[i>>3] |= 1 << (7 - uint(i&7))
		}
	}
	return out
}

func (b bits) String() string {
	s := make([]byte, len(b))
	for i, v := range b {
		s[i] = '0' + v
	}
	if len(s) > 96 {
		return string(s[:96]) + "..."
	}
	return string(s)
}

func eqBits(p []byte, k int64, want bits) bool {
	if int64(len(want)) != k {
		return false
	}
	for i := int64(0); i < k; i++ {
		if (p[i>>3]>>(7-uint(i&7)))&1 != want[i] {
			return false
		}
	}
	return true
}

// ---------------------------------------------------------------------------
// reader expressions

type node struct {
	Kind    string  `json:"kind"`
	Hex     string  `json:"hex,omitempty"`
	NBits   int64   `json:"nbits,omitempty"`
	MinRead int     `json:"minread,omitempty"`
	Off     int64   `json:"off,omitempty"`
	Len     int64   `json:"len,omitempty"`
	Kids    []*node `json:"kids,omitempty"`
}

func (n *node) depth() int {
	d := 0
	for _, k := range n.Kids {
		if kd := k.depth(); kd > d {
			d = kd
		}
	}
	return d + 1
}

func (n *node) has(kind string) bool {
	if n.Kind == kind {
		return true
	}
	for _, k := range n.Kids {
		if k.has(kind) {
			return true
		}
	}
	return false
}

var tmpDir string
var fileSeq int

type built struct {
	r     bitio.ReaderAtSeeker
	ref   bits
	close []func()
}

func (b *built) Close() {
	for _, f := range b.close {
		f()
	}
}

func build(n *node, b *built) (bitio.ReaderAtSeeker, bits, error) {
	switch n.Kind {
	case "buf":
		data, _ := hex.DecodeString(n.Hex)
		nb := n.NBits
		ref := bitsOf(data, int64(len(data))*8)
		if nb < 0 {
			return bitio.NewBitReader(data, -1), ref, nil
		}
		return bitio.NewBitReader(data, nb), ref[:nb], nil
	case "raw":
		data, _ := hex.DecodeString(n.Hex)
		return bitio.NewIOBitReadSeeker(bytes.NewReader(data)), bitsOf(data, int64(len(data))*8), nil
	case "file", "stack":
		data, _ := hex.DecodeString(n.Hex)
		var rs io.ReadSeeker
		if n.Kind == "file" || n.NBits == 1 {
			if tmpDir == "" {
				d, err := os.MkdirTemp("", "c01")
				if err != nil {
					return nil, nil, err
				}
				tmpDir = d
			}
			fileSeq++
			p := filepath.Join(tmpDir, fmt.Sprintf("f%d.bin", fileSeq))
			b.close = append(b.close, func() { os.Remove(p) })
			if err := os.WriteFile(p, data, 0o600); err != nil {
				return nil, nil, err
			}
			f, err := os.Open(p)
			if err != nil {
				return nil, nil, err
			}
			b.close = append(b.close, func() { f.Close() })
			rs = f
		} else {
			rs = bytes.NewReader(data)
		}
		if n.Kind == "stack" {
			ctx, cancel := context.WithCancel(context.Background())
			b.close = append(b.close, cancel)
			rs = ctxreadseeker.New(ctx, rs)
			rs = progressreadseeker.New(rs, 1024, int64(len(data)), func(int64, int64) {})
			rs = aheadreadseeker.New(rs, n.MinRead)
		}
		return bitio.NewIOBitReadSeeker(rs), bitsOf(data, int64(len(data))*8), nil
	case "zero":
		z := bitiox.NewZeroAtSeeker(n.NBits)
		// fq always uses the zero reader through a multi reader or section
		return bitio.NewSectionReader(z, 0, n.NBits), make(bits, n.NBits), nil
	case "section", "range":
		kr, kref, err := build(n.Kids[0], b)
		if err != nil {
			return nil, nil, err
		}
		if n.Kind == "range" {
			r, err := bitiox.Range(kr, n.Off, n.Len)
			if err != nil {
				return nil, nil, fmt.Errorf("range: %w", err)
			}
			return r, kref[n.Off : n.Off+n.Len], nil
		}
		return bitio.NewSectionReader(kr, n.Off, n.Len), kref[n.Off : n.Off+n.Len], nil
	case "multi":
		var rs []bitio.ReadAtSeeker
		var ref bits
		for _, k := range n.Kids {
			kr, kref, err := build(k, b)
			if err != nil {
				return nil, nil, err
			}
			rs = append(rs, kr)
			ref = append(ref, kref...)
		}
		m, err := bitio.NewMultiReader(rs...)
		if err != nil {
			return nil, nil, fmt.Errorf("multi: %w", err)
		}
		return m, ref, nil
	case "rebit":
		// bit -> byte view -> bit again: length is padded to whole bytes
		kr, kref, err := build(n.Kids[0], b)
		if err != nil {
			return nil, nil, err
		}
		padded := append(bits{}, kref...)
		for len(padded)%8 != 0 {
			padded = append(padded, 0)
		}
		return bitio.NewIOBitReadSeeker(bitio.NewIOReadSeeker(kr)), padded, nil
	}
	return nil, nil, fmt.Errorf("unknown kind %q", n.Kind)
}

// refLen computes the bit length of an expression without building it.
func refLen(n *node) int64 {
	switch n.Kind {
	case "buf":
		if n.NBits < 0 {
			return int64(len(n.Hex) / 2 * 8)
		}
		return n.NBits
	case "raw", "file", "stack":
		return int64(len(n.Hex) / 2 * 8)
	case "zero":
		return n.NBits
	case "section", "range":
		return n.Len
	case "multi":
		var s int64
		for _, k := range n.Kids {
			s += refLen(k)
		}
		return s
	case "rebit":
		l := refLen(n.Kids[0])
		return (l + 7) / 8 * 8
	}
	return 0
}

var sizeGen = rapid.OneOf(
	rapid.IntRange(0, 4),
	rapid.IntRange(0, 40),
	rapid.IntRange(0, 300),
	rapid.SampledFrom([]int{7, 8, 9, 15, 16, 17, 31, 32, 33, 63, 64, 65, 127, 128, 129, 255, 256, 257}),
)

func genBytes(rt *rapid.T, label string) []byte {
	n := sizeGen.Draw(rt, label+"_len")
	kind := rapid.IntRange(0, 3).Draw(rt, label+"_fill")
	b := make([]byte, n)
	switch kind {
	case 0:
		for i := range b {
			b[i] = byte(i*37 + 11)
		}
	case 1:
		copy(b, rapid.SliceOfN(rapid.Byte(), n, n).Draw(rt, label+"_bytes"))
	case 2:
		for i := range b {
			b[i] = 0xff
		}
	case 3:
		for i := range b {
			b[i] = byte(0xa5 ^ i)
		}
	}
	return b
}

func genNode(rt *rapid.T, depth int, label string) *node {
	leaf := depth <= 0 || rapid.IntRange(0, 9).Draw(rt, label+"_leafp") < 3
	if leaf {
		switch rapid.SampledFrom([]string{"buf", "buf", "buf", "raw", "file", "stack", "stack", "zero"}).Draw(rt, label+"_kind") {
		case "buf":
			b := genBytes(rt, label)
			nb := int64(-1)
			if rapid.Bool().Draw(rt, label+"_cut") {
				nb = rapid.Int64Range(0, int64(len(b))*8).Draw(rt, label+"_nbits")
			}
			return &node{Kind: "buf", Hex: hex.EncodeToString(b), NBits: nb}
		case "raw":
			return &node{Kind: "raw", Hex: hex.EncodeToString(genBytes(rt, label))}
		case "file":
			return &node{Kind: "file", Hex: hex.EncodeToString(genBytes(rt, label))}
		case "stack":
			mr := rapid.OneOf(rapid.IntRange(0, 64), rapid.SampledFrom([]int{1, 2, 8, 16, 512 * 1024})).Draw(rt, label+"_minread")
			onFile := int64(0)
			if rapid.IntRange(0, 3).Draw(rt, label+"_onfile") == 0 {
				onFile = 1
			}
			return &node{Kind: "stack", Hex: hex.EncodeToString(genBytes(rt, label)), MinRead: mr, NBits: onFile}
		default:
			return &node{Kind: "zero", NBits: int64(sizeGen.Draw(rt, label+"_zbits"))}
		}
	}
	switch rapid.SampledFrom([]string{"section", "range", "multi", "multi", "rebit"}).Draw(rt, label+"_kind") {
	case "section", "range":
		kind := "section"
		k := genNode(rt, depth-1, label+"k")
		l := refLen(k)
		off := rapid.Int64Range(0, l).Draw(rt, label+"_off")
		ln := rapid.Int64Range(0, l-off).Draw(rt, label+"_len")
		if rapid.Bool().Draw(rt, label+"_isrange") {
			kind = "range"
		}
		return &node{Kind: kind, Off: off, Len: ln, Kids: []*node{k}}
	case "multi":
		n := rapid.IntRange(0, 4).Draw(rt, label+"_parts")
		m := &node{Kind: "multi"}
		for i := 0; i < n; i++ {
			m.Kids = append(m.Kids, genNode(rt, depth-1, fmt.Sprintf("%sm%d", label, i)))
		}
		return m
	default:
		// the byte view's Seek from end is only defined for whole bytes (see
		// assumptions), so the re-entered source is trimmed to a byte multiple
		k := genNode(rt, depth-1, label+"k")
		if l := refLen(k); l%8 != 0 {
			k = &node{Kind: "section", Off: 0, Len: l - l%8, Kids: []*node{k}}
		}
		return &node{Kind: "rebit", Kids: []*node{k}}
	}
}

// bit count generator biased to boundaries
func genN(rt *rapid.T, label string, left int64) int64 {
	cands := []int64{0, 1, 7, 8, 9, 63, 64, 65}
	if left >= 0 {
		cands = append(cands, left, left+1, left-1, (8-left%8)%8)
	}
	v := rapid.OneOf(
		rapid.Int64Range(0, 200),
		rapid.Int64Range(0, 24),
		rapid.SampledFrom(cands),
	).Draw(rt, label)
	if v < 0 {
		v = 0
	}
	return v
}

type readerModel struct {
	c    *harness.Case
	name string
	r    bitio.ReaderAtSeeker
	ref  bits
	pos  int64 // model position; may exceed len(ref) after an accepted out-of-range seek
	// statistics for the non-triviality rule
	unaligned bool
	seeked    bool
}

func errName(err error) string {
	if err == nil {
		return "nil"
	}
	if errors.Is(err, io.EOF) {
		return "EOF"
	}
	return err.Error()
}

func (m *readerModel) checkRead(op string, p []byte, n, off, k int64, err error) {
	c := m.c
	L := int64(len(m.ref))
	c.Stepf("%s %s(n=%d off=%d) -> %d,%s", m.name, op, n, off, k, errName(err))
	if off%8 != 0 || n%8 != 0 {
		m.unaligned = true
	}
	if off < 0 || off > L {
		// outside: nothing may be returned
		c.Check(k == 0, "read-outside-returned-bits:"+op, "%s at %d (len %d) returned %d bits", op, off, L, k)
		c.Check(err != nil || n == 0, "read-outside-no-error:"+op, "%s at %d (len %d) returned nil error", op, off, L)
		return
	}
	avail := L - off
	want := n
	if avail < want {
		want = avail
	}
	c.Check(k >= 0 && k <= want, "read-count:"+op, "%s(n=%d) at %d of %d returned %d bits, at most %d exist", op, n, off, L, k, want)
	c.Check(eqBits(p, k, m.ref[off:off+k]), "read-bits:"+op, "%s(n=%d) at %d of %d: got %s want %s", op, n, off, L, bitsOf(p, k), m.ref[off:off+k])
	if err == nil {
		c.Check(n == 0 || k > 0, "read-zero-nil:"+op, "%s(n=%d) at %d of %d returned 0 bits and nil error", op, n, off, L)
		return
	}
	c.Check(errors.Is(err, io.EOF), "read-error:"+op, "%s(n=%d) at %d of %d: unexpected error %v", op, n, off, L, err)
	c.Check(off+k == L, "read-early-eof:"+op, "%s(n=%d) at %d of %d returned EOF after %d bits, before the logical end", op, n, off, L, k)
	if k > 0 && k < n {
		c.Label("short-read-with-eof")
	}
}

func (m *readerModel) step(rt *rapid.T) {
	c := m.c
	L := int64(len(m.ref))
	op := rapid.SampledFrom([]string{"read", "read", "readat", "readat", "seek", "seek", "readfull", "readatfull", "clone"}).Draw(rt, "op")
	switch op {
	case "read":
		left := L - m.pos
		n := genN(rt, "n", left)
		p := make([]byte, bitio.BitsByteCount(n)+1)
		k, err := m.r.ReadBits(p, n)
		m.checkRead("ReadBits", p, n, m.pos, k, err)
		m.pos += k
		if n > 64 {
			c.Label("n>64")
		}
	case "readat":
		off := rapid.OneOf(rapid.Int64Range(0, L), rapid.Int64Range(0, L+9), rapid.SampledFrom([]int64{0, L, L - 1, L - 7, L - 8, L - 9, L - 64, L - 65})).Draw(rt, "off")
		if off < 0 {
			off = 0
		}
		n := genN(rt, "n", L-off)
		p := make([]byte, bitio.BitsByteCount(n)+1)
		k, err := m.r.ReadBitsAt(p, n, off)
		m.checkRead("ReadBitsAt", p, n, off, k, err)
		if n > 64 {
			c.Label("n>64")
		}
	case "readfull":
		n := genN(rt, "n", L-m.pos)
		p := make([]byte, bitio.BitsByteCount(n)+1)
		if m.pos > L {
			return
		}
		k, err := bitio.ReadFull(m.r, p, n)
		c.Stepf("%s ReadFull(n=%d) at %d -> %d,%s", m.name, n, m.pos, k, errName(err))
		if m.pos%8 != 0 || n%8 != 0 {
			m.unaligned = true
		}
		if m.pos+n <= L {
			c.Check(err == nil && k == n, "readfull-short", "ReadFull(n=%d) at %d of %d returned %d,%v", n, m.pos, L, k, err)
			c.Check(eqBits(p, n, m.ref[m.pos:m.pos+n]), "readfull-bits", "ReadFull(n=%d) at %d: got %s want %s", n, m.pos, bitsOf(p, n), m.ref[m.pos:m.pos+n])
			m.pos += n
		} else {
			c.Check(err != nil, "readfull-no-error", "ReadFull(n=%d) at %d of %d returned nil error", n, m.pos, L)
			// position after a failed ReadFull: everything up to the end was consumed
			np, serr := m.r.SeekBits(0, io.SeekCurrent)
			c.Check(serr == nil && np >= m.pos && np <= L, "readfull-pos", "after failed ReadFull position %d,%v not in [%d,%d]", np, serr, m.pos, L)
			m.pos = np
		}
	case "readatfull":
		off := rapid.Int64Range(0, L).Draw(rt, "off")
		n := genN(rt, "n", L-off)
		p := make([]byte, bitio.BitsByteCount(n)+1)
		k, err := bitio.ReadAtFull(m.r, p, n, off)
		c.Stepf("%s ReadAtFull(n=%d off=%d) -> %d,%s", m.name, n, off, k, errName(err))
		if off%8 != 0 || n%8 != 0 {
			m.unaligned = true
		}
		if off+n <= L {
			c.Check(err == nil && k == n, "readatfull-short", "ReadAtFull(n=%d) at %d of %d returned %d,%v", n, off, L, k, err)
			c.Check(eqBits(p, n, m.ref[off:off+n]), "readatfull-bits", "ReadAtFull(n=%d) at %d: got %s want %s", n, off, bitsOf(p, n), m.ref[off:off+n])
		} else {
			c.Check(err != nil, "readatfull-no-error", "ReadAtFull(n=%d) at %d of %d returned nil error", n, off, L)
		}
	case "seek":
		whence := rapid.SampledFrom([]int{io.SeekStart, io.SeekCurrent, io.SeekEnd}).Draw(rt, "whence")
		var base int64
		switch whence {
		case io.SeekCurrent:
			base = m.pos
		case io.SeekEnd:
			base = L
			c.Label("seek-from-end")
		}
		target := rapid.OneOf(rapid.Int64Range(0, L), rapid.Int64Range(-9, L+9), rapid.SampledFrom([]int64{0, L, L - 1, L - 8, 1, 7, 8})).Draw(rt, "target")
		off := target - base
		np, err := m.r.SeekBits(off, whence)
		c.Stepf("%s SeekBits(%d, %d) [target %d] -> %d,%s", m.name, off, whence, target, np, errName(err))
		m.seeked = true
		switch {
		case target >= 0 && target <= L:
			c.Check(err == nil && np == target, "seek-inside", "SeekBits(%d,%d) from %d of %d -> %d,%v want %d", off, whence, m.pos, L, np, err, target)
			m.pos = target
		case target < 0:
			c.Check(err != nil, "seek-negative-accepted", "SeekBits(%d,%d) from %d of %d to negative target %d accepted (returned %d)", off, whence, m.pos, L, target, np)
			// position must be unchanged
			cp, cerr := m.r.SeekBits(0, io.SeekCurrent)
			c.Check(cerr == nil && cp == m.pos, "seek-failed-moved", "after failed seek position is %d,%v want %d", cp, cerr, m.pos)
		default:
			// beyond the end: may fail (position unchanged) or succeed
			if err == nil {
				c.Check(np == target, "seek-beyond-value", "SeekBits beyond end returned %d want %d", np, target)
				m.pos = target
				c.Label("seek-beyond-accepted")
			} else {
				cp, cerr := m.r.SeekBits(0, io.SeekCurrent)
				c.Check(cerr == nil && cp == m.pos, "seek-failed-moved", "after failed seek position is %d,%v want %d", cp, cerr, m.pos)
			}
		}
	case "clone":
		cr, err := bitio.CloneReaderAtSeeker(m.r)
		c.Stepf("%s Clone -> %s", m.name, errName(err))
		c.Check(err == nil, "clone-error", "CloneReaderAtSeeker: %v", err)
		if _, isRaw := m.r.(*bitio.IOBitReadSeeker); isRaw {
			// a raw clone shares the underlying io.ReadSeeker; it still starts at 0
		}
		m.r = cr
		m.pos = 0
		c.Label("clone")
	}
}

func TestReaders(t *testing.T) { harness.Rapid(t, 160000, 3000000, propReaders) }

// native fuzzing of the same properties (thorough tier): the fuzzer's bytes
// drive rapid's draws
func FuzzReaders(f *testing.F) { f.Fuzz(harness.MakeFuzz(propReaders)) }
func FuzzWriters(f *testing.F) { f.Fuzz(harness.MakeFuzz(propWriters)) }
func FuzzAhead(f *testing.F)   { f.Fuzz(harness.MakeFuzz(propAhead)) }

func propReaders(rt *rapid.T, c *harness.Case) {
	{
		n := genNode(rt, rapid.IntRange(0, 3).Draw(rt, "depth"), "n")
		c.Set("expr", n)
		b := &built{}
		defer b.Close()
		r, ref, err := build(n, b)
		if err != nil {
			c.Failf("build-error", "building the expression failed: %v", err)
		}
		for _, k := range []string{"multi", "section", "range", "rebit", "stack", "file", "zero", "raw"} {
			if n.has(k) {
				c.Label("has-" + k)
			}
		}
		m := &readerModel{c: c, name: "r", r: r, ref: ref}
		// length as fq computes it
		l, err := bitiox.Len(r)
		c.Check(err == nil && l == int64(len(ref)), "len", "bitiox.Len = %d,%v want %d", l, err, len(ref))
		steps := rapid.IntRange(1, 30).Draw(rt, "steps")
		for i := 0; i < steps; i++ {
			m.step(rt)
		}
		byteViews(rt, c, m)
		c.SetNonTrivial(m.unaligned && (n.depth() >= 2 || m.seeked))
		if m.unaligned {
			c.Label("unaligned")
		}
	}
}

// byteViews checks the io.Reader style views on a fresh clone.
func byteViews(rt *rapid.T, c *harness.Case, m *readerModel) {
	padded := append(bits{}, m.ref...)
	for len(padded)%8 != 0 {
		padded = append(padded, 0)
	}
	want := padded.pack()
	fresh := func() bitio.ReaderAtSeeker {
		cr, err := bitio.CloneReaderAtSeeker(m.r)
		c.Check(err == nil, "clone-error", "CloneReaderAtSeeker: %v", err)
		return cr
	}
	switch rapid.SampledFrom([]string{"ioreader", "ioreadseeker", "limit", "copybits", "copy", "none"}).Draw(rt, "view") {
	case "ioreader":
		r := bitio.NewIOReader(fresh())
		var got []byte
		for i := 0; i < 10000; i++ {
			sz := rapid.OneOf(rapid.IntRange(1, 4), rapid.IntRange(1, 70)).Draw(rt, "rsz")
			p := make([]byte, sz)
			var k int
			var err error
			if sz == 1 && rapid.Bool().Draw(rt, "readbyte") {
				var bb byte
				bb, err = r.ReadByte()
				if err == nil || !errors.Is(err, io.EOF) || len(got) < len(want) {
					p[0] = bb
					if err == nil {
						k = 1
					} else if len(got) < len(want) {
						// ReadByte hides the count; a final padded byte comes with EOF
						k = 1
					}
				}
			} else {
				k, err = r.Read(p)
			}
			got = append(got, p[:k]...)
			c.Stepf("ioreader Read(%d) -> %d,%s", sz, k, errName(err))
			c.Check(len(got) <= len(want) && bytes.Equal(got, want[:len(got)]), "ioreader-bytes", "IOReader produced %x, source bytes %x", got, want)
			if err != nil {
				c.Check(errors.Is(err, io.EOF), "ioreader-error", "IOReader error %v", err)
				c.Check(len(got) == len(want), "ioreader-early-eof", "IOReader EOF after %d of %d bytes", len(got), len(want))
				break
			}
			c.Check(k > 0, "ioreader-zero-nil", "IOReader.Read returned 0, nil")
		}
		c.Check(bytes.Equal(got, want), "ioreader-bytes", "IOReader produced %x, want %x", got, want)
		c.Label("view-ioreader")
		if len(m.ref)%8 != 0 {
			c.Label("byte-view-at-unaligned-end")
		}
	case "ioreadseeker":
		r := bitio.NewIOReadSeeker(fresh())
		pos := int64(0)
		B := int64(len(want))
		for i := 0; i < 12; i++ {
			if rapid.Bool().Draw(rt, "doseek") {
				whence := rapid.SampledFrom([]int{io.SeekStart, io.SeekCurrent, io.SeekEnd}).Draw(rt, "bwhence")
				if whence != io.SeekStart && len(m.ref)%8 != 0 {
					whence = io.SeekStart
				}
				target := rapid.Int64Range(0, B).Draw(rt, "btarget")
				off := target
				switch whence {
				case io.SeekCurrent:
					off = target - pos
				case io.SeekEnd:
					off = target - B
				}
				np, err := r.Seek(off, whence)
				c.Stepf("ioreadseeker Seek(%d,%d) [target %d] -> %d,%s", off, whence, target, np, errName(err))
				if target*8 > int64(len(m.ref)) {
					// the padded end does not exist in the bit source; either outcome is fine
					if err != nil {
						continue
					}
				}
				c.Check(err == nil && np == target, "ioreadseeker-seek", "Seek(%d,%d) from %d -> %d,%v want %d", off, whence, pos, np, err, target)
				pos = target
			} else {
				sz := rapid.IntRange(1, 70).Draw(rt, "rsz")
				p := make([]byte, sz)
				k, err := r.Read(p)
				c.Stepf("ioreadseeker Read(%d) at %d -> %d,%s", sz, pos, k, errName(err))
				end := pos + int64(k)
				c.Check(end <= B && bytes.Equal(p[:k], want[pos:end]), "ioreadseeker-bytes", "Read(%d) at byte %d: got %x, source bytes %x", sz, pos, p[:k], want[pos:min(B, pos+int64(sz))])
				if err != nil {
					c.Check(errors.Is(err, io.EOF), "ioreadseeker-error", "error %v", err)
					c.Check(end == B, "ioreadseeker-early-eof", "EOF at byte %d of %d", end, B)
				} else {
					c.Check(k > 0, "ioreadseeker-zero-nil", "Read returned 0, nil")
				}
				pos = end
			}
		}
		c.Label("view-ioreadseeker")
	case "limit":
		lim := rapid.Int64Range(0, int64(len(m.ref))+9).Draw(rt, "limit")
		lr := bitio.NewLimitReader(fresh(), lim)
		wantBits := m.ref
		if lim < int64(len(wantBits)) {
			wantBits = wantBits[:lim]
		}
		pos := int64(0)
		for i := 0; i < 200; i++ {
			n := genN(rt, "ln", int64(len(wantBits))-pos)
			if n == 0 {
				n = 1
			}
			p := make([]byte, bitio.BitsByteCount(n)+1)
			k, err := lr.ReadBits(p, n)
			c.Stepf("limit(%d) ReadBits(%d) at %d -> %d,%s", lim, n, pos, k, errName(err))
			c.Check(pos+k <= int64(len(wantBits)) && eqBits(p, k, wantBits[pos:pos+k]), "limit-bits", "LimitReader(%d) read at %d: got %s", lim, pos, bitsOf(p, k))
			pos += k
			if err != nil {
				c.Check(errors.Is(err, io.EOF) && pos == int64(len(wantBits)), "limit-eof", "LimitReader(%d) over %d bits: error %v at %d", lim, len(m.ref), err, pos)
				break
			}
			c.Check(k > 0, "limit-zero-nil", "LimitReader returned 0, nil")
		}
		c.Label("view-limit")
	case "copybits":
		var bb bytes.Buffer
		n, err := bitiox.CopyBits(&bb, fresh())
		c.Stepf("CopyBits -> %d,%s", n, errName(err))
		c.Check(err == nil && bytes.Equal(bb.Bytes(), want), "copybits", "CopyBits wrote %x (%v), source bytes %x", bb.Bytes(), err, want)
		c.Label("view-copybits")
	case "copy":
		var dst bitio.Buffer
		n, err := bitio.Copy(&dst, fresh())
		c.Stepf("Copy -> %d,%s", n, errName(err))
		c.Check(err == nil && n == int64(len(m.ref)), "copy-count", "Copy returned %d,%v want %d", n, err, len(m.ref))
		c.Check(dst.Len() == int64(len(m.ref)), "copy-len", "Buffer.Len %d want %d", dst.Len(), len(m.ref))
		p := make([]byte, bitio.BitsByteCount(n)+1)
		k, _ := dst.ReadBits(p, n)
		c.Check(k == n && eqBits(p, k, m.ref), "copy-bits", "bits copied into a Buffer differ")
		c.Label("view-copy")
	}
}

// ---------------------------------------------------------------------------
// writers

func TestWriters(t *testing.T) { harness.Rapid(t, 16000, 400000, propWriters) }

func propWriters(rt *rapid.T, c *harness.Case) {
	{
		var model bits
		var out bytes.Buffer
		w := bitio.NewIOBitWriter(&out)
		var buf bitio.Buffer
		readOff := int64(0)
		steps := rapid.IntRange(1, 25).Draw(rt, "steps")
		unaligned := false
		for i := 0; i < steps; i++ {
			src := genBytes(rt, "src")
			if rapid.IntRange(0, 40).Draw(rt, "big") == 0 {
				// larger than IOBitWriter's internal 32 KiB copy buffer
				src = bytes.Repeat(append(src, 0x5a), 1+(32*1024+rapid.IntRange(0, 40000).Draw(rt, "bigsz"))/(len(src)+1))
				c.Label("write>32KiB")
			}
			n := rapid.Int64Range(0, int64(len(src))*8).Draw(rt, "n")
			if n%8 != 0 {
				unaligned = true
			}
			wn, err := w.WriteBits(src, n)
			c.Stepf("IOBitWriter.WriteBits(%d bytes %x.., %d) -> %d,%s", len(src), src[:min(len(src), 16)], n, wn, errName(err))
			c.Check(err == nil && wn == n, "iobitwriter-count", "WriteBits(%d) -> %d,%v", n, wn, err)
			bn, err := buf.WriteBits(src, n)
			c.Check(err == nil && bn == n, "buffer-write-count", "Buffer.WriteBits(%d) -> %d,%v", n, bn, err)
			model = append(model, bitsOf(src, n)...)
			// whole bytes must already be out, unchanged
			whole := len(model) / 8
			c.Check(bytes.Equal(out.Bytes(), model[:whole*8].pack()), "iobitwriter-bytes", "IOBitWriter wrote %x want %x", out.Bytes(), model[:whole*8].pack())
			c.Check(buf.Len() == int64(len(model))-readOff, "buffer-len", "Buffer.Len %d want %d", buf.Len(), int64(len(model))-readOff)
			if rapid.IntRange(0, 3).Draw(rt, "rd") == 0 {
				left := int64(len(model)) - readOff
				rn := genN(rt, "rn", left)
				p := make([]byte, bitio.BitsByteCount(rn)+1)
				k, err := buf.ReadBits(p, rn)
				c.Stepf("Buffer.ReadBits(%d) -> %d,%s", rn, k, errName(err))
				wantK := min(rn, left)
				if left == 0 && rn > 0 {
					c.Check(k == 0 && errors.Is(err, io.EOF), "buffer-read-empty", "read from empty Buffer -> %d,%v", k, err)
					// an emptied buffer resets itself
					model = nil
					readOff = 0
					// the IOBitWriter model continues separately
					out.Reset()
					w = bitio.NewIOBitWriter(&out)
					buf = bitio.Buffer{}
					continue
				}
				c.Check(k == wantK && eqBits(p, k, model[readOff:readOff+k]), "buffer-read", "Buffer.ReadBits(%d) at %d: %d bits %s want %s", rn, readOff, k, bitsOf(p, max(k, 0)), model[readOff:readOff+wantK])
				readOff += k
				if rn%8 != 0 {
					unaligned = true
				}
			}
		}
		// unread bits
		left := model[readOff:]
		bb, bl := buf.Bits()
		c.Check(bl == int64(len(left)), "buffer-bits-count", "Buffer.Bits reports %d bits, %d are unread and returned", bl, len(left))
		c.Check(int64(len(bb)) == bitio.BitsByteCount(int64(len(left))) && bytes.Equal(bb, left.pack()), "buffer-bits", "Buffer.Bits = %x want %x", bb, left.pack())
		err := w.Flush()
		c.Check(err == nil, "flush-error", "Flush: %v", err)
		c.Check(bytes.Equal(out.Bytes(), model.pack()), "flush-bytes", "after Flush: %x want %x (zero padded)", out.Bytes(), model.pack())
		c.SetNonTrivial(unaligned && steps > 1)
	}
}

// ---------------------------------------------------------------------------
// exhaustive Read64 / Write64 / ReverseBytes64 grid

func grid64Patterns() []uint64 {
	ps := []uint64{0, ^uint64(0), 0xaaaaaaaaaaaaaaaa, 0x5555555555555555}
	for i := 0; i < 64; i++ {
		ps = append(ps, 1<<uint(i))
	}
	x := uint64(0x243f6a8885a308d3)
	for i := 0; i < 16; i++ {
		x ^= x << 13
		x ^= x >> 7
		x ^= x << 17
		ps = append(ps, x)
	}
	return ps
}

func TestGrid64(t *testing.T) {
	if harness.E.Shard != 0 {
		t.Skip("grid runs in shard 0")
	}
	pats := grid64Patterns()
	var cells int64
	for first := int64(0); first < 16; first++ {
		for n := int64(0); n <= 64; n++ {
			for pi, pat := range pats {
				// buffer of 12 bytes filled from the pattern
				buf := make([]byte, 12)
				for i := range buf {
					buf[i] = byte(pat >> (uint(i%8) * 8))
					if i >= 8 {
						buf[i] = ^buf[i]
					}
				}
				ref := bitsOf(buf, 96)
				var want uint64
				for i := int64(0); i < n; i++ {
					want = want<<1 | uint64(ref[first+i])
				}
				got := bitio.Read64(buf, first, n)
				cells++
				nt := first%8 != 0 || n%8 != 0
				harness.Count(harness.HashInts(1, uint64(first), uint64(n), uint64(pi)), nt, "grid-read64")
				if got != want {
					harness.Violate(t.Name(), "read64", fmt.Sprintf("Read64(%x, %d, %d) = %#x want %#x", buf, first, n, got, want), map[string]any{"buf": hex.EncodeToString(buf), "first": first, "n": n})
					t.Errorf("Read64(%x, %d, %d) = %#x want %#x", buf, first, n, got, want)
					return
				}
				// Write64: write the low n bits of pat at first into a buffer of
				// the complementary background; all other bits must be untouched
				for _, bg := range []byte{0x00, 0xff} {
					dst := bytes.Repeat([]byte{bg}, 12)
					v := pat
					if n < 64 {
						v &= (1 << uint(n)) - 1
					}
					bitio.Write64(v, n, dst, first)
					wantBits := bitsOf(bytes.Repeat([]byte{bg}, 12), 96)
					for i := int64(0); i < n; i++ {
						wantBits[first+i] = byte(v>>uint(n-1-i)) & 1
					}
					cells++
					harness.Count(harness.HashInts(2, uint64(first), uint64(n), uint64(pi), uint64(bg)), nt, "grid-write64")
					if !bytes.Equal(dst, wantBits.pack()) {
						harness.Violate(t.Name(), "write64", fmt.Sprintf("Write64(%#x, %d, bg %x, %d) = %x want %x", v, n, bg, first, dst, wantBits.pack()), map[string]any{"v": v, "first": first, "n": n, "bg": bg})
						t.Errorf("Write64(%#x, %d, bg %x, %d) = %x want %x", v, n, bg, first, dst, wantBits.pack())
						return
					}
				}
				// ReverseBytes64 at whole-byte widths
				if n%8 == 0 && first == 0 {
					v := pat
					if n < 64 {
						v &= (1 << uint(n)) - 1
					}
					var wantR uint64
					for i := int64(0); i < n/8; i++ {
						wantR = wantR<<8 | (v>>(uint(i)*8))&0xff
					}
					gotR := bitio.ReverseBytes64(int(n), v)
					cells++
					harness.Count(harness.HashInts(3, uint64(n), uint64(pi)), n > 8, "grid-reversebytes64")
					if gotR != wantR {
						harness.Violate(t.Name(), "reversebytes64", fmt.Sprintf("ReverseBytes64(%d, %#x) = %#x want %#x", n, v, gotR, wantR), map[string]any{"v": v, "n": n})
						t.Errorf("ReverseBytes64(%d, %#x) = %#x want %#x", n, v, gotR, wantR)
						return
					}
				}
			}
		}
	}
	harness.Extra("grid64_cells", cells)
	harness.Extra("grid64_exhaustive", "firstBit 0..15 x nBits 0..64 x 84 patterns, Read64 + Write64 on two backgrounds + ReverseBytes64")
	harness.Sample("grid64", 1, map[string]any{"op": "Read64", "firstBit": 3, "nBits": 13, "pattern": "0xaaaaaaaaaaaaaaaa"})
}

// ---------------------------------------------------------------------------
// aheadreadseeker alone, with a faulty underlying reader

type faultyRS struct {
	r        *bytes.Reader
	shortMax int // >0: deliver at most this many bytes per Read
	failAt   int // Read call number that fails once (-1: never)
	calls    int
	failed   bool
}

var errTransient = errors.New("transient fault")

func (f *faultyRS) Read(p []byte) (int, error) {
	f.calls++
	if f.calls == f.failAt {
		f.failed = true
		return 0, errTransient
	}
	if f.shortMax > 0 && len(p) > f.shortMax {
		p = p[:f.shortMax]
	}
	return f.r.Read(p)
}

func (f *faultyRS) Seek(off int64, whence int) (int64, error) { return f.r.Seek(off, whence) }

func TestAhead(t *testing.T) { harness.Rapid(t, 80000, 2000000, propAhead) }

func propAhead(rt *rapid.T, c *harness.Case) {
	{
		data := genBytes(rt, "data")
		minRead := rapid.OneOf(rapid.IntRange(0, 16), rapid.IntRange(0, 64)).Draw(rt, "minread")
		short := 0
		if rapid.IntRange(0, 3).Draw(rt, "short") == 0 {
			short = rapid.IntRange(1, 9).Draw(rt, "shortmax")
		}
		failAt := -1
		if rapid.IntRange(0, 4).Draw(rt, "fault") == 0 {
			failAt = rapid.IntRange(1, 6).Draw(rt, "failat")
		}
		c.Set("data", hex.EncodeToString(data))
		c.Set("minread", minRead)
		c.Set("short", short)
		c.Set("failat", failAt)
		f := &faultyRS{r: bytes.NewReader(data), shortMax: short, failAt: failAt}
		var rs io.ReadSeeker = f
		wrap := rapid.IntRange(0, 2).Draw(rt, "wrap")
		c.Set("wrap", wrap)
		if wrap >= 1 {
			rs = progressreadseeker.New(rs, 1024, int64(len(data)), func(a, b int64) {})
		}
		if wrap == 2 {
			ctx, cancel := context.WithCancel(context.Background())
			defer cancel()
			rs = ctxreadseeker.New(ctx, rs)
		}
		a := aheadreadseeker.New(rs, minRead)
		L := int64(len(data))
		pos := int64(0)
		steps := rapid.IntRange(1, 30).Draw(rt, "steps")
		seekEndInside := false
		reads := 0
		for i := 0; i < steps; i++ {
			if rapid.IntRange(0, 2).Draw(rt, "op") == 0 {
				whence := rapid.SampledFrom([]int{io.SeekStart, io.SeekCurrent, io.SeekEnd}).Draw(rt, "whence")
				target := rapid.Int64Range(0, L).Draw(rt, "target")
				off := target
				switch whence {
				case io.SeekCurrent:
					off = target - pos
				case io.SeekEnd:
					off = target - L
					seekEndInside = true
				}
				np, err := a.Seek(off, whence)
				c.Stepf("Seek(%d,%d) [target %d] -> %d,%s", off, whence, target, np, errName(err))
				c.Check(err == nil && np == target, "ahead-seek", "Seek(%d,%d) from %d of %d -> %d,%v want %d", off, whence, pos, L, np, err, target)
				pos = target
			} else {
				sz := rapid.OneOf(rapid.IntRange(1, 8), rapid.IntRange(1, 2*minRead+3)).Draw(rt, "sz")
				p := make([]byte, sz)
				k, err := a.Read(p)
				reads++
				c.Stepf("Read(%d) at %d -> %d,%s", sz, pos, k, errName(err))
				end := pos + int64(k)
				c.Check(end <= L && bytes.Equal(p[:k], data[pos:end]), "ahead-bytes", "Read(%d) at %d of %d: got %x want prefix of %x", sz, pos, L, p[:k], data[pos:min(L, pos+int64(sz))])
				pos = end
				if err != nil {
					if errors.Is(err, errTransient) {
						c.Label("transient-fault")
						// the failed read consumed an unknown amount below; re-seek as a caller would
						np, serr := a.Seek(pos, io.SeekStart)
						c.Check(serr == nil && np == pos, "ahead-seek", "re-seek after fault -> %d,%v", np, serr)
						continue
					}
					c.Check(errors.Is(err, io.EOF) || errors.Is(err, io.ErrUnexpectedEOF), "ahead-error", "unexpected error %v", err)
					c.Check(pos == L, "ahead-early-eof", "EOF at %d of %d", pos, L)
				} else {
					c.Check(k > 0, "ahead-zero-nil", "Read returned 0, nil at %d of %d", pos, L)
				}
			}
		}
		if seekEndInside {
			c.Label("seek-from-end")
		}
		if short > 0 {
			c.Label("short-reads")
		}
		c.SetNonTrivial(reads >= 2 && (seekEndInside || minRead > 1) && L > int64(minRead))
	}
}

// fixed regression seeds of repaired defects
func TestSeeds(t *testing.T) {
	if harness.E.Shard != 0 {
		t.Skip("seeds run in shard 0")
	}
	fail := func(sig, msg string, cs any) {
		if harness.Violate(t.Name(), sig, msg, cs) {
			t.Error(msg)
		}
	}
	// aheadreadseeker: seek from end into the cache must not desynchronise
	{
		data := make([]byte, 32)
		for i := range data {
			data[i] = byte(i)
		}
		a := aheadreadseeker.New(bytes.NewReader(data), 8)
		p1 := make([]byte, 1)
		_, _ = a.Read(p1)
		_, _ = a.Seek(-28, io.SeekEnd)
		p := make([]byte, 8)
		_, _ = io.ReadFull(a, p)
		q := make([]byte, 8)
		_, _ = io.ReadFull(a, q)
		harness.Count(harness.HashInts(100, 1), true, "seed")
		if !bytes.Equal(p, data[4:12]) || !bytes.Equal(q, data[12:20]) {
			fail("ahead-bytes", fmt.Sprintf("seed ahead seek-from-end: got %x %x want %x %x", p, q, data[4:12], data[12:20]), "ahead seed 32 bytes minRead 8: Read(1) Seek(-28,End) Read(8) Read(8)")
		}
	}
	// raw IOBitReadSeeker: unaligned ReadBitsAt near the end
	{
		r := bitio.NewIOBitReadSeeker(bytes.NewReader([]byte{0xab, 0xcd}))
		p := make([]byte, 3)
		k, _ := r.ReadBitsAt(p, 16, 4)
		harness.Count(harness.HashInts(100, 2), true, "seed")
		if k > 12 {
			fail("read-count:ReadBitsAt", fmt.Sprintf("seed raw ReadBitsAt(16 bits at 4 of 16) returned %d bits", k), "raw 2 bytes ReadBitsAt(p,16,4)")
		}
	}
}
