#!/bin/sh
# usage: tools/collectseed.sh <ID> <n>   copies /tmp/seed<n>_<id>/SEED to seeded/<ID>-<n> and runs the quick check against it
ID=$1; N=$2; lc=$(echo $ID | tr A-Z a-z)
SRC=/tmp/seed${N}_$lc/SEED; DST=/verif/seeded/$ID-$N
[ -f $SRC/patch.diff ] || { echo "no patch in $SRC"; exit 2; }
mkdir -p $DST && cp -r $SRC/. $DST/ && rm -f $DST/go.mod $DST/go.sum
shift 2
/verif/tools/seedcheck.sh $ID $DST/patch.diff "$@"
