#!/bin/sh
# usage: tools/mutant.sh <ID> <sed-expression> <file-relative-to-repo> [extra vcheck args]
# applies a sed mutant in a scratch worktree, runs the quick check against it, reverts.
set -e
ID=$1; EXPR=$2; FILE=$3; shift 3
WT=/tmp/wt_main
[ -d $WT ] || git -C /repo worktree add --detach $WT >/dev/null 2>&1
git -C $WT checkout -q --detach $(git -C /repo rev-parse HEAD)
git -C $WT checkout -- .
sed -i "$EXPR" $WT/$FILE
if git -C $WT diff --quiet; then echo "MUTANT DID NOT APPLY"; exit 3; fi
git -C $WT diff | head -20
(cd $WT && GOFLAGS=-mod=mod go build ./... ) || { echo "MUTANT DOES NOT COMPILE"; git -C $WT checkout -- .; exit 3; }
cd /verif
VERIF_REPO=$WT ./bin/vcheck $ID "$@" | tail -4 || true
git -C $WT checkout -- .
