#!/bin/sh
# usage: tools/seedcheck.sh <ID> <patch.diff> [extra vcheck args]
# applies a seeded change in a scratch worktree, runs the check against it,
# records the outcome next to the patch (detection.json), reverts.
ID=$1; PATCH=$2; shift 2
WT=/tmp/wt_seedcheck_$ID
[ -d $WT ] || git -C /repo worktree add --detach $WT >/dev/null 2>&1
git -C $WT checkout -q --detach $(git -C /repo rev-parse HEAD)
git -C $WT checkout -- . ; git -C $WT clean -fdq
if ! git -C $WT apply --3way "$PATCH" 2>/tmp/seedcheck_apply.err && ! git -C $WT apply "$PATCH" 2>>/tmp/seedcheck_apply.err; then echo "PATCH DOES NOT APPLY"; cat /tmp/seedcheck_apply.err; exit 3; fi
git -C $WT reset -q
(cd $WT && GOFLAGS=-mod=mod go build ./... ) || { echo "DOES NOT COMPILE"; exit 3; }
cd /verif
START=$(date +%s)
VERIF_WORKTAG=seed VERIF_REPO=$WT ./bin/vcheck $ID "$@" > /tmp/seedcheck_$ID.log 2>&1
RC=$?
END=$(date +%s)
grep -v "^KNOWN" /tmp/seedcheck_$ID.log | tail -6
echo "exit=$RC"
python3 - "$ID" "$PATCH" "$RC" "$((END-START))" "$*" <<'PY'
import json,sys,os,subprocess
id_,patch,rc,secs,args=sys.argv[1:6]
ev=json.load(open(f'/verif/evidence.seed/{id_}.json'))
out={"check":id_,"args":args,"tier":ev.get("tier"),"verif_seed":ev.get("seed"),"exit":int(rc),"detected":int(rc)==1,
     "violation_signatures":ev["coverage"].get("violation_signatures"),"wall_s":int(secs),
     "repo_head":subprocess.run(["git","-C","/repo","rev-parse","--short","HEAD"],capture_output=True,text=True).stdout.strip()}
d=os.path.dirname(patch)
p=os.path.join(d,"detection.json")
hist=[]
if os.path.exists(p):
    try: hist=json.load(open(p))
    except Exception: hist=[]
hist.append(out)
json.dump(hist,open(p,"w"),indent=1)
print("recorded", p)
PY
git -C $WT checkout -- . ; git -C $WT clean -fdq
