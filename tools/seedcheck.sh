#!/bin/sh
# usage: tools/seedcheck.sh <ID> <patch.diff> [extra vcheck args]
# applies a seeded change in a scratch worktree, runs the check against it, reverts.
ID=$1; PATCH=$2; shift 2
WT=/tmp/wt_seedcheck_$ID
[ -d $WT ] || git -C /repo worktree add --detach $WT >/dev/null 2>&1
git -C $WT checkout -q --detach $(git -C /repo rev-parse HEAD)
git -C $WT checkout -- . ; git -C $WT clean -fdq
if ! git -C $WT apply --3way "$PATCH" 2>/tmp/seedcheck_apply.err && ! git -C $WT apply "$PATCH" 2>>/tmp/seedcheck_apply.err; then echo "PATCH DOES NOT APPLY"; cat /tmp/seedcheck_apply.err; exit 3; fi
(cd $WT && GOFLAGS=-mod=mod go build ./... ) || { echo "DOES NOT COMPILE"; exit 3; }
cd /verif
VERIF_REPO=$WT ./bin/vcheck $ID "$@" | tail -6
echo "exit=$?"
git -C $WT checkout -- . ; git -C $WT clean -fdq
