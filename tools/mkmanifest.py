#!/usr/bin/env python3
"""Generates /verif/MANIFEST.json from the table below (kept here so the
manifest stays consistent as checks are added)."""
import json, os, subprocess

ROOT = os.path.dirname(os.path.dirname(os.path.abspath(__file__)))

# id -> (technique, level text, level note, design ref)
CHECKS = {
 "C01": ("rapid state-machine PBT against a reference bit-string model + exhaustive Read64/Write64 grid",
         "Generated-case search: reader expressions (depth<=4) x operation histories (read/read-at/seek/clone/readfull, byte views, writers) compared step by step with an independent []bit model; the Read64/Write64/ReverseBytes64 grid (firstBit 0..15 x nBits 0..64 x 84 patterns) is enumerated exhaustively on every run; aheadreadseeker is additionally driven alone against bytes.Reader with short reads and a transient fault. No proof of absence: assurance is 'no disagreement in N generated histories'.",
         "Trusted: the 60-line reference model in props/c01, rapid's generators. Out-of-range seeks beyond the end may fail or succeed; byte-view relative seeks only on byte-multiple sources.",
         "DESIGN.md 2/C01"),
 "C20": ("exhaustive history enumeration + rapid state machine against a stack model; -race stress; in-process REPL interrupt",
         "Generated-history search: every valid history of push/interrupt/finish/re-finish/stop up to length 8 (quick) or 10 (thorough), depth<=5, is enumerated exhaustively against a stack model with a harness-owned synchronous trigger (ctx.Err() of every context after every step); longer histories by a rapid state machine; the concurrent part (interrupter goroutine vs pusher/finisher) runs under the race detector and can only sample interleavings; the REPL part interrupts a nested in-process REPL while its innermost evaluation runs.",
         "Trusted: the stack model (30 lines), Go's race detector. The Go scheduler is not owned: schedule-dependent faults are found by repetition only. Finishing an inner level after its enclosing level finished is outside the domain. Liveness only via a 60 s watchdog on an evaluation that can end by cancellation only.",
         "DESIGN.md 2/C20"),
 "C02": ("exhaustive reader x width x alignment x pattern grid + rapid call sequences against math/big reference arithmetic",
         "Generated-case search: every reader method of *decode.D found by reflection (2448) is called inside a harness-defined format; an exhaustive grid (kind x width 1..64 x alignment 0..7 x boundary patterns x endian, all 65536 F16/FP16 words, F32/F64/F80 exponent sweeps, LEB128 edge encodings, text readers) runs on every run and rapid adds random sequences of 1..6 reads; value, error and position are compared with independent arithmetic on a plain bit vector.",
         "Trusted: the reference arithmetic in props/c02/ref_test.go (math/big, math.Float*frombits). Little-endian values only asserted at whole-byte widths; invalid text: totality and position only; non-canonical F80 encodings and ULEB128 >= 2^63: exact value or error.",
         "DESIGN.md 2/C02"),
 "C06": ("enumerated mutation family + rapid sampling over corpus x formats x force, crash-isolated workers",
         "Generated-input search over a finite mutation family (truncations, byte overwrites, bit flips, length-field saturation, block dup/removal) around ~700 sample files and harness-written files x home format / probe / any registered format x force; the whole family is enumerated for small files on their home format (<=128 bytes quick, <=512 thorough), the rest is sampled by rapid (1.6M quick); a sample goes through the whole CLI (dv, -V, torepr). Oracle: tree or decode error, never a Go panic or process death (worker journal attributes deaths, search continues behind them). 'No fault in N explored inputs of the stated family', not absence.",
         "Trusted: Go's recover/runtime fault reporting. Non-termination is reported as suspected_hang, not decided. Every decode runs under a deterministic format-attempt budget (4000 attempts) so that forced container/probe decodes cannot blow up. OOM deaths count only when reproduced alone under 48 GiB.",
         "DESIGN.md 2/C06"),
 "C13": ("enumeration of function x boundary-value tuples from the run-time registry, crash-isolated batched evaluation",
         "Generated-case search: all 751 name/arity pairs fq adds (53 Go registrations incl. `_` prefixed + public jq definitions = scope minus the reference engine's builtins) x a pool of 66 boundary values as input and arguments: arity 0 every input, arity 1 the full product in the thorough tier and a seed-derived covering sample in quick, arity >= 2 seed-derived tuples; evaluated as `INPUT | try [limit(50; F(ARGS))] catch .` in batches of 120 inside workers whose death is attributed to the open batch, narrowed to one call on restart, excluded and searched behind. Violation = Go panic reaching the harness or process death. 'No fault in N explored calls', not absence.",
         "Trusted: Go's recover/runtime fault reporting; the virtual OS (empty stdin, readline EOF). jq-level non-termination is timeout_inconclusive; option values whose honouring needs gigabytes of output are not in the pool; OOM deaths count only when reproduced alone under 48 GiB.",
         "DESIGN.md 2/C13"),
 "C18": ("rapid-drawn concurrent schedules and order permutations of decode jobs vs first-run/lone-run hashes under the race detector",
         "Generated-schedule search: rapid draws sequences of batches of 1..16 goroutines, each running decode+render jobs (canonical dump of every value of the tree; dv, -V and torepr through the whole CLI, per-format options set/unset, failing decodes, the same job many times) with their own Interp on the shared registry, built with -race; every result hash must equal the job's first sequential run, sequential permutations must not change results, and a per-run sample is compared with a lone run in a fresh process. The harness does not own the Go scheduler: interleavings are sampled by repetition.",
         "Trusted: sha256 of the canonical dump, Go's race detector. Schedule-dependent failures may not replay deterministically (replay re-runs 10 times).",
         "DESIGN.md 2/C18"),
 "C03": ("structural invariants over corpus/mutant trees + rapid-generated decoder programs against a reference interpreter",
         "Generated-case search with two oracles: (A) generic invariants (range inside buffer, compound hull over same-buffer children, unique names / ByName = children, start order, array indexes, parent links) on every value of corpus decodes (format-balanced), sampled mutants and forced decodes run in a crash-isolated child process; (B) a DSL of decoder programs over the public decode API (struct/array/framed/limited/range/seek/nested format/nested buffer/root bitbuf/synthetic values/errors) drawn by rapid, run by fq and by a reference interpreter that predicts the whole tree, compared exactly.",
         "Trusted: lib/treegen's reference interpreter (it follows a start-up probe of two fq behaviours that were repaired during this work) and tree walk. Struct child indexes are not asserted (the statement does not claim them).",
         "DESIGN.md 2/C03"),
 "C04": ("exhaustive small-buffer enumeration of ranges.Gaps vs a bitmap reference + coverage invariants over generated and corpus trees",
         "ranges.Gaps is enumerated exhaustively for totals <= 12 bits and <= 3 ranges (1.88M cells) and sampled by rapid beyond, against a bitmap reference; on decoded trees (corpus, mutants, generated decoder programs, failed decodes) the leaves + gap fields of every gap-filled buffer must cover every bit exactly, gaps must not overlap decoded leaves of the same decode, and gap content equals the buffer bits.",
         "Trusted: the bitmap reference, lib/treegen. The one-bit tolerance of ranges.Gaps is a listed known finding (pinned by ranges_test.go) and excluded by signature.",
         "DESIGN.md 2/C04"),
 "C09": ("rapid-generated binary expression trees against a reference bit-string evaluator + model-free laws",
         "Generated-case search: expression trees (depth<=5) over strings, integers, big integers, nested arrays, decode values and {tobits, tobytes, tobits(n), tobytes(n), tobitsrange, tobytesrange, index, slice with negative/out-of-range bounds, .bits/.bytes, tonumber, tostring, explode, to_hex, length, .size/.start/.stop/.unit}, 24 trees per Eval, compared with a reference evaluator that marks each result ok / must-fail / unspecified; plus laws (split/concat, pad, number round trip).",
         "Trusted: the reference model in props/c09. For byte-unit binaries with a partial trailing byte only totality and the laws are asserted (docs are silent).",
         "DESIGN.md 2/C09"),
 "C15": ("rapid-generated container files written by Go stdlib / python stdlib writers, decoded through jq, + exhaustive single-byte corruption sweeps",
         "Generated-input search with independent writers: compress/gzip, archive/zip, archive/tar, image/png (+ hand-written chunks incl. zTXt), image/gif, a hand-written WAV writer and (second family) python3 gzip/zipfile/tarfile/wave/zlib/bz2 produce files from rapid-drawn contents together with a manifest of what was stored; fq's decode tree must report those names, sizes, header fields, payload bytes and 'valid' checksums; every single-byte corruption inside a checksummed region (sampled; exhaustive on tiny files) must give an error, an invalid checksum, or a provably unchanged payload.",
         "Trusted: the stdlib writers and the manifests in lib/containers. fq does not validate tar header checksums, zip CRCs or gzip ISIZE: for those only reporting is checked. gzip flag order and gif local colour tables are listed known findings.",
         "DESIGN.md 2/C15"),
 "C16": ("rapid-generated values through independent wire encoders with per-node wire-variant choice, truncation sweep, trailing data",
         "Generated-input search: JSON-like values (full int64/uint64 range, floats incl. subnormals, unicode, byte strings, empty containers) are encoded by hand-written encoders (msgpack, cbor, bson, bencode, BER; JSON/JSONL/YAML/TOML/XML/CSV text emitters) that choose a wire variant per node (all width forms, definite/indefinite, chunking, float sizes); torepr/tovalue of fq's decode must equal the source; every strict prefix of a prefix-free encoding must be a decode error; trailing bytes must be an error (text) or a top-level gap (binary). A deterministic enumeration covers every width/length form at its boundaries.",
         "Trusted: lib/enc (pinned to RFC 8949 appendix A, spec examples, encoding/asn1, encoding/json). Out of domain: cbor tags, bson exotic types, msgpack timestamps, BER tags >= 31.",
         "DESIGN.md 2/C16"),
 "C14": ("rapid-generated values per conversion pair: round trips, independent reference encoders/readers, malformed-input rejection",
         "Generated-input search per encoder/decoder pair (hex, 4 base64 variants, URL path/query/urlencode/url, ISO-8859-1, UTF-8/16, radix 2..64 incl. big integers, JSON/JSONL/jq literals, YAML, TOML, CSV, XML in 3 forms, xmlentities) and the hash functions: round trip on the documented domain, agreement with harness-written references (RFC 4648 coder, percent decoder, UTF-16, Horner radix loops, RFC 4180 reader, XML mappings) and Go crypto (+ published vectors, python3 hashlib in the thorough tier), and malformed inputs (odd/invalid digits, bad padding/alphabet, trailing data, truncation) must be errors. One long-running jq program per interpreter keeps the cost at ~0.2 ms per case.",
         "Trusted: the references in props/c14, Go crypto/encoding packages as references only. Domains narrowed to what doc/usage.md documents as lossless (see NOTES.md); six library-level round-trip defects are listed known findings.",
         "DESIGN.md 2/C14"),
 "C19": ("rapid-generated TCP conversations written by an independent packet/pcap writer, reassembly compared with the sender model",
         "Generated-history search: 1..4 connections x two payload streams (0..64 KiB, sequence numbers crossing 2^32) are segmented by a harness TCP sender, then interleaved, duplicated, re-segmented, swapped, IPv4-fragmented (fragments reordered) and selectively omitted by rapid-drawn edits, framed by hand-written Ethernet / raw IP / SLL / SLL2 / loopback and pcap (LE/BE, us/ns) / pcapng (multi-section) writers; fq's .tcp_connections and .ipv4_reassembled (through the decode tree and, for a sample, through jq) must equal the model: exact bytes per direction and endpoint, with loss only the prefix before the first missing byte plus a non-zero skipped_bytes.",
         "Trusted: lib/pcapgen and the sender model. SYN omission, 4-tuple reuse and mid-connection captures are not generated. Five library-level (gopacket) or by-design limits are listed known findings and decided from the generated input, never from fq's output.",
         "DESIGN.md 2/C19"),
 "C10": ("rapid-generated display configurations, dump output parsed back into (address, byte) pairs and ranges; JSON output parsed back",
         "Generated-configuration search: binaries (any start alignment/length, slices of slices) and decode trees (corpus + generated decoder programs, nested buffers, inner values) x line_bytes 1..64 x addrbase/sizebase {2,8,10,16,36} x display_bytes x verbose x colour x depth are rendered by d/dd/dv/hd (directly through the exported Display interface and, for a sample, through the whole CLI); a parser of the dump locates columns by fixed widths and every hex pair / ascii cell must equal the buffer byte at the printed row address + column, untruncated values must show their bytes exactly once, until-markers and verbose ranges must parse back to the true range and size, the ruler must be right. JSON (tojson, -V, --argjson, literals; ints to 2^200, floats, escapes) must parse to the source value, integers by decimal string.",
         "Trusted: the dump parser/oracle in props/c10, encoding/json as the JSON reader. A cut until-marker is not parsed back; colour output is only stripped, not compared with monochrome. Two display defects are listed known findings (one pinned by 108 goldens).",
         "DESIGN.md 2/C10"),
 "C17": ("rapid-generated argument vectors against a model of jq's CLI on raw gojq, the real jq 1.6 binary, and solo-run composition",
         "Generated-configuration search: a semantic configuration (mode flags -n/-s/-R, output flags -r/-j/--raw-output0/-c, named arguments incl. duplicates, program inline / -f / omitted, 0..4 inputs that are JSON, undecodable, missing, a directory or stdin, optional injected argument error of 13 kinds) is spelled as an argv in many ways (short/long/alias/-o key=value/--flag=value, combined short flags, duplicates, any order, flags after positionals, `--`), run through in-process interp.Main with a virtual file system, and compared with (1) a harness model of jq's CLI semantics on raw gojq (stdout byte for byte, exit status by 2 > 4 > 5, 3 for non-compiling programs, 2 for argument errors), (2) the real jq 1.6 binary on the comparable subset, (3) composition: stdout of a multi-input run equals the concatenation of cached solo runs, exit status follows the precedence of the solo classes (measured, not assumed), every solo stderr line appears.",
         "Trusted: the CLI model in props/c17, jq 1.6 (/usr/bin/jq) where both tools are comparable. Error text is never compared. -i, -h, -v, --argdecode, -C are not generated. Three by-design/fork divergences from jq are listed known findings.",
         "DESIGN.md 2/C17"),
 "C07": ("grammar-generated standard jq programs x generated JSON inputs, differential against the embedded gojq engine used directly",
         "Generated-program search: a typed, weighted grammar (lib/jqgen, ~650 template productions: paths, arithmetic, comparison, alternative, try/catch, reduce/foreach/label, if, construction, string interpolation and @formats, binds and destructuring, function definitions, and every standard built-in fq redefines or wraps, with regex arguments from a regex grammar and literal metacharacter strings) x JSON inputs (big integers, floats, unicode) is evaluated in fq (batched through Interp.Eval, bisected to one case on a mismatch; a sample through the whole CLI) and by raw gojq (Parse/Compile/Run with pass-through debug/stderr); observable = outputs until the first uncaught error + whether it failed. Error text is never compared.",
         "Trusted: raw gojq as the reference (the engine fq embeds), lib/jqgen. Updates whose left side contains `a, b` and `?//` alternatives binding different variables are not generated (a gojq VM defect makes both engines unreliable there). Three by-design differences of fromjson/split on non-UTF-8 are listed known findings.",
         "DESIGN.md 2/C07"),
 "C08": ("generated decoder trees and corpus values x typed read-only query grammar, metamorphic v|q == v|tovalue|q, plus a fq-free reference value",
         "Generated-case search: decode trees from generated decoder programs (every scalar kind: uint, sint, big int, float, string, bool, null, raw bits, with/without symbolic mapping, nested structs/arrays, JSON-object scalars) and values sampled from corpus trees (97 format buckets) x queries from a typed read-only grammar (361 atoms + composition: type, length, keys, has, index, slice with boundary probes, iterate, paths, comparison/sort, arithmetic, string functions, tojson, to_entries, construction). Oracles: tovalue of the root equals the JSON value the program stands for (computed without fq); `v | q` and `v | tovalue | q` give the same outputs and error flag; keys/to_entries/.[]/paths/tostream follow field order consistently. Documented differences are removed by construction (guarded string-key lookup, no `_` keys, order-independent queries for unsorted structs, content-free queries for non-UTF-8 raw).",
         "Trusted: the reference value computation and comparison in props/c08. 18 signatures of engine-level (gojq fork) asymmetries and two golden-pinned behaviours are listed known findings.",
         "DESIGN.md 2/C08"),
 "C11": ("full-grammar generated programs: parse/print/parse round trip, semantic equality of printed text on raw gojq, wrapper vs literal wrapping",
         "Generated-program search over the full grammar accepted by the fork's parser (all operators and precedences, unary minus, postfix ?, try without catch, reduce/foreach/label/break, nested defs, import/include directives, string interpolation, format strings, object shorthand, fq literal extensions, redundant/dropped parentheses, comments): (1) _query_fromstring | _query_tostring | _query_fromstring equals the first AST; (2) original and printed text give the same observable on raw gojq; (3) _eval_query_rewrite with harness input/output/catch queries named like user functions (tojson, debug, error) behaves as the literal program `try (IN | (P) | OUT) catch C` on gojq, for six wrapper configurations.",
         "Trusted: raw gojq, lib/jqgen's precedence-exact printer. The fork's own printer lives outside /repo and cannot be mutated there; oracle (2) is what would see a wrong parenthesis in it. One finding (slurp/help/repl hijack of user-defined functions) is listed known.",
         "DESIGN.md 2/C11"),
 "C05": ("every value of corpus/mutant/generated/container trees: tobits/tobytes/renderings compared with the harness's own read of the buffer",
         "Generated-input search: for every value (incl. unaligned fields, gaps, nested buffer roots) of corpus trees (2452 pairs), sampled mutants, generated decoder programs and gzip/zip containers written by the Go standard library (nested buffer content known from the writer), tobits must be exactly buffer[InnerRange], tobytes the same bits left-padded with zeros, the root the whole input (also raw on stdout through the CLI), and every bits_format rendering (string, hex, base64, byte_array, md5, truncate, snippet) must encode those bits, checked against harness encoders; the tree is wrapped as the jq value fq itself would return (lib/treeq) and fed to one long-running evaluation.",
         "Trusted: the harness's bit extraction and encoders (crypto/md5, own hex/base64), lib/treeq's wrapping through exported constructors. ._bits/._bytes raw output is not asserted (the statement pads only the tobytes form).",
         "DESIGN.md 2/C05"),
 "C12": ("every value of corpus/mutant/generated trees: path resolution by pointer identity, parent/root navigation vs an independent upward walk, path<->expression round trip",
         "Generated-input search: for every value (1.2M per quick run) of corpus trees, mutants and generated decoder programs, root | getpath(value's topath) must be the same node (pointer identity of the underlying *decode.Value), the last path element its name/index, parent/parents/root/buffer_root/format_root must equal an independent upward walk, and path_to_expr of the path must parse (embedded gojq) back to it and, for a sample, reach the node through eval/expr_to_path; rapid-generated path arrays (arbitrary unicode, quotes, backslashes, keywords, digits, empty keys, negative and huge indexes) must survive path_to_expr | expr_to_path.",
         "Trusted: the Go-side tree walk and pointer identity, gojq's parser for reading expressions back. eval/expr_to_path on tree paths are sampled (20 ms each).",
         "DESIGN.md 2/C12"),
}

NOT_YET = {}

# sentences appended to the level text / note: strengthenings made after the
# first build (seeded changes that were missed, DESIGN.md 6.5)
ADD_TEXT = {
 "C16": " TOML values up to 6 levels deep (arrays of tables nested in arrays of tables) and hand-written nested documents.",
 "C10": " A quarter of the binaries sit over a concatenation of parts (multi reader: the dump writers get their input in pieces of any length).",
 "C04": " Sub-range decodes: exactly the decoded range must be covered; a top value that is a single leaf (bits, bytes, text formats) must cover the decoded range itself.",
 "C03": " Sources also include corpus files decoded from a sub-range of a larger buffer (bit-granular start and length, raw formats included): every value of the top buffer must lie inside the decoded range.",
 "C05": " Sources also include corpus files decoded from a sub-range of a larger buffer (decode.Options.Range and `$buf | tobytes[a:b] | decode(f)`, unaligned starts).",
 "C06": " Field-directed mutants overwrite every leaf field of the unmodified decode with 8 patterns and, for fields <= 16 bits, with every small value, unforced and forced; inputs are also handed to the decoder as a bitio.MultiReader of parts (short reads at part boundaries); saved inputs of repaired defects (props/c06/regressions.json) are replayed on every run. Samples whose golden test runs without -d are bucketed by the directory of their decoder, so that every format with samples is in the pool.",
 "C07": " A third of the batches also deliver the input as a DECODED JSON document (`TEXT | fromjson`, what `fq P file.json` sees) and check, model-free, that evaluating the program does not change its input (tojson before == after).",
 "C08": " Index and has() keys include fractional values around every boundary (deterministic probes and generated).",
 "C09": " .start/.stop are asserted for every non-empty binary, unaligned ranges included, as the smallest run of whole units covering the bits.",
 "C11": " String literals and comments are also generated with raw CR/LF/TAB/U+2028 and other unusual spellings; a pipe-last law (`P | repl`-style rewrites under binds) and scripted REPL sessions cover the slurp rewrite.",
 "C12": " Sub-range decodes and decoded documents whose own keys are named like decode value keys (_path, _root, ...) are regression sources.",
 "C13": " The pool holds values nested 40/400/4000 deep; 4000 generated option objects x 29 option-taking functions x 6 inputs cover option combinations. Query values (ASTs of 42 programs) with every node removed or replaced are handed to _query_tostring; malformed interpreter states are set before _eval; the pool holds large powers of two and decode values with multi-byte strings around the display limits.",
 "C18": " Fresh processes whose FIRST use of the registry is concurrent (cold start), lone runs in fresh processes, and chunked-input decodes (the same bytes as a MultiReader of 2..64 parts, with foreign decodes in between) must give the same hash. Per format, corrupt variants of a sample decoded in a fresh process after a decode of the intact file with the other force setting must equal the variants decoded on their own (an option of an earlier job must not decide a later one).",
 "C19": " Captures that start in mid-connection (whole handshake missing) are generated: when every data byte is captured the full streams are asserted, endpoints matched by address.",
 "C20": " Eight scenarios interrupt after nested evaluations that ended in different ways (error caught, break, limit, abandoned); 12000 rounds cancel a context while a read of internal/ctxreadseeker is in flight. Stacks of 2..5 nested context writers with cancellation at any level; a gated reader forces a ctxreadseeker call to be in flight when its context is cancelled (the race detector decides).",
}
ADD_NOTE = {
 "C09": " (supersedes: start/stop of unaligned ranges were unspecified in the first build.)",
 "C19": " (supersedes: mid-connection captures are generated now; lost SYN alone and 4-tuple reuse are not.) A sixth listed finding: no handshake and the FIN overtakes data (gopacket).",
}

def main():
    props = [json.loads(l) for l in open(os.path.join(ROOT, "properties.jsonl"))]
    ids = [p["id"] for p in props]
    na_path = os.path.join(ROOT, "tools", "not_applicable.json")
    na = json.load(open(na_path)) if os.path.exists(na_path) else {}
    checks = []
    for i in ids:
        if i not in CHECKS:
            continue
        tech, text, note, ref = CHECKS[i]
        text += ADD_TEXT.get(i, "")
        note += ADD_NOTE.get(i, "")
        checks.append({
            "property_id": i,
            "quick_cmd": f"./bin/vcheck {i} --tier quick",
            "thorough_cmd": f"./bin/vcheck {i} --tier thorough",
            "evidence_file": f"evidence/{i}.json",
            "replay_cmd_template": f"./bin/vcheck {i} --replay {{path}}",
            "engine": "vcheck",
            "level_claimed": {"category": "exploration", "text": text, "design_ref": ref},
            "level_note": note,
            "technique": tech,
        })
    not_app = []
    for i in ids:
        if i in CHECKS:
            continue
        not_app.append({"property_id": i, "reason": na.get(i, "check not built yet in this session (planned in DESIGN.md section 2); no claim is made")})
    fixes = subprocess.run(["git", "-C", "/repo", "log", "--format=%h %s", "--grep=^fix:"], capture_output=True, text=True).stdout.strip().splitlines()
    m = {
        "version": 1,
        "setup_cmd": "./setup.sh",
        "hooks": {
            "guard": "verif",
            "enable": "none needed: /verif is the Go module github.com/wader/fq/verif with `replace github.com/wader/fq => /repo`, so the harness imports fq's packages (including internal/...) directly and every check recompiles /repo's working tree; no source hooks exist",
            "baseline_off_cmd": "cd /repo && go test -vet=off -count=1 -timeout 25m ./...",
            "source_commits": [],
            "add_only": True,
        },
        "engines": [{
            "name": "vcheck",
            "path": "cmd/vcheck",
            "serves_properties": [c["property_id"] for c in checks],
            "kind_free_text": "Go driver: rebuilds props/<id> test binary from /repo (go test -c, -race for C18/C20), runs shard processes under ulimit -v with seeds derived from VERIF_SEED, restarts crashed workers behind the open case (C06/C13), merges evidence fragments, matches KNOWN_FINDINGS.txt, prints VIOLATION / KNOWN-FINDING lines. Checks are rapid (pgregory.net/rapid v1.3.0) properties, state machines and deterministic enumerations in props/<id>/.",
        }],
        "checks": checks,
        "notes": "Exit 0 = held on everything explored, 1 = VIOLATION line(s), 2 = inconclusive (build failure, harness time limit). Unguarded fix: commits in /repo: " + "; ".join(fixes),
        "not_applicable": not_app,
    }
    json.dump(m, open(os.path.join(ROOT, "MANIFEST.json"), "w"), indent=1)
    print("checks:", [c["property_id"] for c in checks], "not claimed:", len(not_app))

main()
