#!/bin/sh
# usage: tools/finalrun.sh [seeds...]   quick tier of all 20 checks at the given VERIF_SEED values
# (default 1 2 3) in a tagged work directory; prints one line per run and every VIOLATION / INCONCLUSIVE line
export GOFLAGS=-mod=mod GOPROXY=off GOSUMDB=off GOTOOLCHAIN=local
cd /verif
[ $# -gt 0 ] || set -- 1 2 3
for sd in "$@"; do
  for id in C01 C02 C03 C04 C05 C06 C07 C08 C09 C10 C11 C12 C13 C14 C15 C16 C17 C18 C19 C20; do
    s=$(date +%s)
    VERIF_SEED=$sd VERIF_WORKTAG=final ./bin/vcheck $id --tier quick > /tmp/final_$id.$sd.log 2>&1
    rc=$?
    echo "$id seed=$sd rc=$rc $(( $(date +%s)-s ))s $(grep -c '^KNOWN-FINDING' /tmp/final_$id.$sd.log) known"
    grep -E '^(VIOLATION|INCONCLUSIVE)' /tmp/final_$id.$sd.log
  done
done
