#!/usr/bin/env python3
"""Prints markdown tables for DESIGN.md section 6: findings per property (from
KNOWN_FINDINGS.txt) and seeded changes (from seeded/*/meta.json + detection.json)."""
import json, os, re, glob, collections
def esc(x, n):
    return x[:n].replace('|', '\\|')
ROOT = os.path.dirname(os.path.dirname(os.path.abspath(__file__)))
known = collections.defaultdict(list); fixed = collections.defaultdict(list)
for l in open(os.path.join(ROOT, "KNOWN_FINDINGS.txt")):
    l = l.strip()
    m = re.match(r"(known|fixed): property=(C\d+) (.*)", l)
    if not m: continue
    kind, prop, rest = m.groups()
    if kind == "known":
        sm = re.match(r"sig=(\S+) (.*)", rest)
        known[prop].append((sm.group(1), sm.group(2)) if sm else ("", rest))
    else:
        cm = re.match(r"(\S+) (.*)", rest)
        fixed[prop].append((cm.group(1), cm.group(2)))
print("#### Repaired defects (`fix:` commits in /repo)\n")
print("| property | commit | what failed |\n|---|---|---|")
for p in sorted(fixed):
    for c, t in fixed[p]:
        print(f"| {p} | {c} | {esc(t,260)} |")
print("\n#### Known findings (listed, excluded by signature)\n")
print("| property | signature | what fails |\n|---|---|---|")
for p in sorted(known):
    for s, t in known[p]:
        print(f"| {p} | `{s}` | {esc(t,300)} |")
print(f"\nTotals: {sum(len(v) for v in fixed.values())} repaired, {sum(len(v) for v in known.values())} known signatures.\n")
print("#### Seeded changes\n")
print("| seed | property | change | needs | verified (demo unpatched / patched / suite patched) | quick check | signatures |\n|---|---|---|---|---|---|---|")
for d in sorted(glob.glob(os.path.join(ROOT, "seeded", "*"))):
    name = os.path.basename(d)
    meta = {}; det = []
    try: meta = json.load(open(os.path.join(d, "meta.json")))
    except Exception: pass
    try: det = json.load(open(os.path.join(d, "detection.json")))
    except Exception: pass
    v = meta.get("verified", {})
    ver = f"{v.get('demo_unpatched','?')} / {v.get('demo_patched','?')} / {v.get('suite_patched','?')}"
    last = det[-1] if det else {}
    res = "not run"
    if det:
        res = "; ".join(("caught" if x.get("detected") else "MISSED") + f" ({x.get('tier')}, seed {x.get('verif_seed')}, {x.get('wall_s')} s)" for x in det)
    sigs = ", ".join((last.get("violation_signatures") or [])[:3])
    print(f"| {name} | {meta.get('property','?')} | {esc(meta.get('summary',''),160)} | {esc(meta.get('needs_to_manifest',''),160)} | {ver} | {res} | {sigs[:120]} |")
