#!/usr/bin/env python3
# usage: tools/mkseedprompt.py <round> <ID>   writes tools/prompts/seed<round>_<id>.txt from the property text and the summaries of earlier seeds
import json,sys,os,glob
rnd,ID=sys.argv[1],sys.argv[2]
lc=ID.lower()
wt=f"/tmp/seed{rnd}_{lc}"
prop=None
for l in open('/verif/properties.jsonl'):
    p=json.loads(l)
    if p['id']==ID: prop=p
earlier=[]
for d in sorted(glob.glob(f'/verif/seeded/{ID}-*')):
    try:
        m=json.load(open(d+'/meta.json'))
        earlier.append((', '.join(m.get('files_changed',[]))+': '+m.get('summary',''))[:420])
    except Exception: pass
anch=prop.get('anchors') or prop.get('anchored_in') or prop.get('code_anchors') or prop.get('anchor') or []
if isinstance(anch,dict): anch=anch.get('files',[])
if isinstance(anch,list): anch=', '.join(a if isinstance(a,str) else a.get('path',str(a)) for a in anch)
q=prop.get('quantifier','')
if isinstance(q,dict): q=q.get('text','')
txt=f"""You are helping to evaluate a verification framework for the Go project wader/fq (a jq-like CLI with bit-level binary decoders). Your job: craft ONE realistic, subtle change to fq's source code that BREAKS the semantic property stated below, while the code still compiles and the project's existing test suite still passes.

Your private scratch git worktree of the repository is {wt} (already created; work ONLY there; never touch /repo or /verif, never read anything under /verif). Go is installed; every shell call needs: export GOFLAGS=-mod=mod GOPROXY=off GOSUMDB=off GOTOOLCHAIN=local (no network). Build with `cd {wt} && go build ./...`; the existing test suite is `cd {wt} && go test -vet=off -count=1 ./...` (takes 1-4 minutes, longer when the machine is busy; it must still pass with your change — run it, or at least every package your change can affect plus ./format/ and ./pkg/interp/).

The property:

Title: {prop.get('title')}
Statement: {prop.get('statement')}
Quantifier: {q}
Anchored in: {anch}

Requirements for the change:
- It must be the kind of mistake a maintainer could plausibly make in a refactoring or optimisation (off-by-one at a boundary, a wrong variable, a dropped state reset, a missing lock, a swapped field, a cache not invalidated, ...), a few lines at most, in non-test code.
- It must NOT be exposed at once by ordinary use or by the existing tests: it should need something specific to manifest — a particular interleaving, a crash or fault at a particular point, a multi-step sequence of operations, an unusual input (specific alignment, size, boundary value), or two cooperating sites that each look fine alone (this last kind is under-represented so far: e.g. a helper whose contract is loosened slightly plus one caller that relied on the old contract).
- It must genuinely violate the property as stated (not merely change formatting or an error message).
- Do not edit or delete existing tests or golden files.

Deliverables, all inside {wt}/SEED/ (create the directory):
1. patch.diff — `git -C {wt} diff` of your change (source files only, not the SEED directory).
2. a demonstration: a Go test file (or small Go program / shell script using the built fq binary) that FAILS with the change applied and PASSES on the unmodified tree; say exactly how to run it (put the command in SEED/README.md). If it is a Go test, keep it as SEED/demo_test.go plus the instruction where to copy it (e.g. into pkg/bitio/) — do not leave it inside the source tree in the patch. Also write SEED/run_demo.sh: `usage: run_demo.sh <fq worktree>`; it installs the demo into the given worktree (copy demo_test.go into the package directory under the name seed_{lc}_{rnd}_demo_test.go; pass -tags for its build tag), runs it, removes the installed files again (the worktree must be left as it was), exit 0 = demo passes, non-zero = demo fails; locate the demo files with SEED=$(cd "$(dirname "$0")" && pwd).
3. README.md — what the change is, which clause of the property it breaks, what is needed for it to manifest, and the outputs you observed (demo with change: fail; demo without change: pass; existing test suite with change: pass — name the packages you ran).

Verify all three claims yourself before finishing (apply/revert the patch with `git apply` / `git apply -R` to switch between changed and unchanged tree; never `git stash`). Leave the worktree with the change APPLIED and SEED/ filled in. Your final message: a 10-line summary (the change, how it manifests, the three verification results).

IMPORTANT — this is a FURTHER, independent seed for this property. Earlier seeds already exist and must not be repeated or closely varied: [{' ;; '.join(earlier)}]. Choose a DIFFERENT source file (or at least a different function) AND a different kind of mistake AND, if possible, a different clause of the property than all of them (the property has several clauses and its anchor list names many files; a clause or a code path none of the earlier seeds touched is best). Prefer a change that needs a rarer trigger (e.g. a specific combination of two or three conditions, a particular history of operations, or a particular interleaving), as long as it remains a genuine violation of the property as stated. Do not create a go.mod inside SEED/; give demo test files a build tag (seeddemo) so that `go test ./...` ignores them. NEVER use `git stash` (the stash is shared between all worktrees of this repository and other agents work in parallel): switch between changed and unchanged tree with `git apply -R SEED/patch.diff` / `git apply SEED/patch.diff`. If while working you run into behaviour of the UNCHANGED tree that itself violates the property, mention it (input and observed output) at the end of README.md under the heading "Side finding".
"""
open(f'/verif/tools/prompts/seed{rnd}_{lc}.txt','w').write(txt)
print(len(txt), len(earlier))
