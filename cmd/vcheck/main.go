// vcheck is the driver of every property check:
//
//	vcheck <ID> [--tier quick|thorough] [--replay <path>] [--shards n] [--keep]
//
// It rebuilds the property's test binary from /repo's current working tree
// (or $VERIF_REPO), runs it as a set of shard processes under a memory limit,
// merges their evidence fragments into evidence/<ID>.json and prints the
// verdict.  Exit status: 0 held, 1 violation (with VIOLATION lines), 2
// inconclusive / harness failure.
package main

import (
	"bytes"
	"encoding/binary"
	"encoding/hex"
	"encoding/json"
	"fmt"
	"io"
	"os"
	"os/exec"
	"path/filepath"
	"regexp"
	"sort"
	"strconv"
	"strings"
	"sync"
	"syscall"
	"time"

	"github.com/wader/fq/verif/lib/harness"
)

type spec struct {
	Race           bool
	ShardsQuick    int
	ShardsThorough int
	MemGiB         int           // RLIMIT_AS per shard (0 = none; ignored under -race)
	TimeoutQuick   time.Duration // harness kill => inconclusive
	TimeoutThor    time.Duration
	Isolate        bool // restart shard after a process death, skipping the open case
	// ReplayTest: a test of the package that re-runs the single case stored in a
	// replay file (data.case) directly; preferred over rapid's fail file, which
	// is only valid as long as the generator draws the same sequence
	ReplayTest string
	Level          string
	Fuzz           []string      // native fuzz targets run in the thorough tier
	FuzzTime       time.Duration // per target
}

func def() spec {
	return spec{ShardsQuick: 8, ShardsThorough: 16, MemGiB: 6, TimeoutQuick: 15 * time.Minute, TimeoutThor: 90 * time.Minute, Level: "exploration"}
}

var specs = map[string]func(*spec){
	"C01": func(s *spec) { s.Fuzz = []string{"FuzzReaders", "FuzzAhead", "FuzzWriters"}; s.FuzzTime = 3 * time.Minute },
	"C02": func(s *spec) {},
	"C03": func(s *spec) {},
	"C04": func(s *spec) {},
	"C05": func(s *spec) {},
	"C06": func(s *spec) {
		s.Isolate = true
		s.ShardsQuick = 16
		s.Fuzz = []string{"FuzzDecode"}
		s.FuzzTime = 8 * time.Minute
		s.ReplayTest = "TestReplay"
		s.TimeoutThor = 150 * time.Minute
	},
	"C07": func(s *spec) { s.ShardsQuick = 16 },
	"C08": func(s *spec) { s.ShardsQuick = 16 },
	"C09": func(s *spec) { s.ShardsQuick = 16 },
	"C10": func(s *spec) { s.ShardsQuick = 16 },
	"C11": func(s *spec) { s.ShardsQuick = 16 },
	"C12": func(s *spec) { s.ShardsQuick = 16 },
	"C13": func(s *spec) { s.Isolate = true; s.ShardsQuick = 16 },
	"C14": func(s *spec) { s.ShardsQuick = 16 },
	"C15": func(s *spec) {},
	"C16": func(s *spec) {},
	"C17": func(s *spec) { s.ShardsQuick = 16 },
	"C18": func(s *spec) { s.Race = true; s.ShardsQuick = 8; s.ShardsThorough = 8 },
	"C19": func(s *spec) {},
	"C20": func(s *spec) { s.Race = true; s.ShardsQuick = 4; s.ShardsThorough = 8 },
}

var root = "/verif"

func main() {
	os.Exit(run())
}

func usage() int {
	fmt.Fprintln(os.Stderr, "usage: vcheck <ID> [--tier quick|thorough] [--replay path] [--shards n] [--run regexp]")
	return 2
}

func run() int {
	if r := os.Getenv("VERIF_ROOT"); r != "" {
		root = r
	}
	args := os.Args[1:]
	if len(args) < 1 {
		return usage()
	}
	id := strings.ToUpper(args[0])
	mk, ok := specs[id]
	if !ok {
		fmt.Fprintf(os.Stderr, "unknown property %q\n", id)
		return 2
	}
	sp := def()
	mk(&sp)
	tier := os.Getenv("VERIF_TIER")
	replay := ""
	shardsOverride := 0
	runRe := ""
	for i := 1; i < len(args); i++ {
		switch args[i] {
		case "--tier":
			i++
			if i < len(args) {
				tier = args[i]
			}
		case "--replay":
			i++
			if i < len(args) {
				replay = args[i]
			}
		case "--shards":
			i++
			if i < len(args) {
				shardsOverride, _ = strconv.Atoi(args[i])
			}
		case "--run":
			i++
			if i < len(args) {
				runRe = args[i]
			}
		case "--fuzz-only":
			// development aid: skip the shard phase (run no test) and only fuzz
			runRe = "^$"
			os.Setenv("VERIF_FUZZ", "1")
		default:
			return usage()
		}
	}
	if tier != "thorough" {
		tier = "quick"
	}
	seed := uint64(1)
	if s := os.Getenv("VERIF_SEED"); s != "" {
		if n, err := strconv.ParseInt(s, 10, 64); err == nil {
			seed = uint64(n)
		}
	}
	start := time.Now()
	// VERIF_WORKTAG: runs against a patched scratch tree (tools/seedcheck.sh) use
	// their own work and evidence directories, so that they can run beside a
	// check of the real tree
	work := filepath.Join(root, "work", id)
	if t := os.Getenv("VERIF_WORKTAG"); t != "" {
		work += "." + t
		evidenceDir = "evidence." + t
	}
	workDir = work
	_ = os.RemoveAll(work)
	if err := os.MkdirAll(work, 0o755); err != nil {
		fmt.Fprintln(os.Stderr, "vcheck:", err)
		return 2
	}
	bin := filepath.Join(work, strings.ToLower(id)+".test")
	if out, err := build(id, sp, bin, work); err != nil {
		fmt.Printf("INCONCLUSIVE property=%s build failed: %v\n%s\n", id, err, out)
		return 2
	}

	if replay != "" {
		return doReplay(id, sp, bin, work, replay)
	}

	nsh := sp.ShardsQuick
	timeout := sp.TimeoutQuick
	if tier == "thorough" {
		nsh = sp.ShardsThorough
		timeout = sp.TimeoutThor
	}
	if shardsOverride > 0 {
		nsh = shardsOverride
	}
	deadline := time.Now().Add(timeout)

	// rapid replays testdata/rapid first: shards run in fresh directories
	results := make([]*shardResult, nsh)
	var wg sync.WaitGroup
	for i := 0; i < nsh; i++ {
		wg.Add(1)
		go func(i int) {
			defer wg.Done()
			results[i] = runShard(id, sp, bin, work, i, nsh, tier, seed, deadline, runRe)
		}(i)
	}
	wg.Wait()

	var fz []fuzzResult
	if tier == "thorough" || os.Getenv("VERIF_FUZZ") != "" {
		for _, target := range sp.Fuzz {
			fz = append(fz, runFuzz(id, sp, work, target))
		}
	}
	fuzzResults = fz

	return merge(id, sp, tier, seed, results, time.Since(start).Seconds())
}

type fuzzResult struct {
	Target      string `json:"target"`
	Seconds     int    `json:"seconds"`
	Execs       int64  `json:"execs"`
	Interesting int64  `json:"new_interesting"`
	Crasher     string `json:"crasher,omitempty"`
	LogTail     string `json:"log_tail,omitempty"`
	Status      string `json:"status"`
}

var fuzzResults []fuzzResult

var reFuzzLine = regexp.MustCompile(`fuzz: elapsed: [^,]+, execs: (\d+) \([^)]*\), new interesting: (\d+)`)
var reCrasher = regexp.MustCompile(`Failing input written to (\S+)`)

// runFuzz runs one native fuzz target (coverage guided) for the configured
// time.  Go's fuzzer cannot be pinned to a seed; a saved crasher is the
// reproducible unit.
func runFuzz(id string, sp spec, work, target string) fuzzResult {
	res := fuzzResult{Target: target, Seconds: int(sp.FuzzTime.Seconds())}
	if s := os.Getenv("VERIF_FUZZTIME"); s != "" {
		if d, err := time.ParseDuration(s); err == nil {
			sp.FuzzTime = d
			res.Seconds = int(d.Seconds())
		}
	}
	bin := filepath.Join(work, strings.ToLower(id)+".fuzz.test")
	if _, err := os.Stat(bin); err != nil {
		args := []string{"test", "-c", "-vet=off", "-fuzz=" + target, "-o", bin}
		if repo := os.Getenv("VERIF_REPO"); repo != "" && repo != "/repo" {
			args = append(args, "-modfile", filepath.Join(work, "alt.mod"))
		}
		args = append(args, "./props/"+strings.ToLower(id))
		cmd := exec.Command("go", args...)
		cmd.Dir = root
		cmd.Env = goEnv()
		if out, err := cmd.CombinedOutput(); err != nil {
			res.Status = "build-failed"
			res.LogTail = string(out)
			return res
		}
	}
	dir := filepath.Join(work, "fuzz-"+target)
	_ = os.MkdirAll(dir, 0o755)
	logPath := filepath.Join(dir, "log.txt")
	sh := fmt.Sprintf("ulimit -v %d; exec \"$0\" \"$@\"", 12*1024*1024)
	cmd := exec.Command("sh", "-c", sh, bin, "-test.run=^$", "-test.fuzz=^"+target+"$", "-test.fuzztime="+sp.FuzzTime.String(),
		"-test.fuzzcachedir="+filepath.Join(dir, "cache"), "-test.timeout=0", "-test.parallel=16")
	cmd.Dir = dir
	cmd.Env = append(os.Environ(), "VERIF_ROOT="+root, "VERIF_TIER=thorough", "VERIF_FUZZING=1")
	cmd.SysProcAttr = &syscall.SysProcAttr{Setpgid: true}
	lf, _ := os.Create(logPath)
	cmd.Stdout, cmd.Stderr = lf, lf
	if err := cmd.Start(); err != nil {
		lf.Close()
		res.Status = "start-failed"
		return res
	}
	done := make(chan error, 1)
	go func() { done <- cmd.Wait() }()
	var err error
	select {
	case err = <-done:
	case <-time.After(sp.FuzzTime + 10*time.Minute):
		_ = syscall.Kill(-cmd.Process.Pid, syscall.SIGKILL)
		<-done
		res.Status = "killed-by-harness"
	}
	lf.Close()
	b, _ := os.ReadFile(logPath)
	logs := string(b)
	if ms := reFuzzLine.FindAllStringSubmatch(logs, -1); len(ms) > 0 {
		last := ms[len(ms)-1]
		res.Execs, _ = strconv.ParseInt(last[1], 10, 64)
		res.Interesting, _ = strconv.ParseInt(last[2], 10, 64)
	}
	if res.Status == "" {
		if err == nil {
			res.Status = "ok"
		} else {
			res.Status = "failed"
			if m := reCrasher.FindStringSubmatch(logs); m != nil {
				res.Crasher = filepath.Join(dir, m[1])
			}
			lines := strings.Split(logs, "\n")
			if len(lines) > 80 {
				lines = lines[len(lines)-80:]
			}
			res.LogTail = strings.Join(lines, "\n")
		}
	}
	return res
}

func goEnv() []string {
	env := os.Environ()
	env = append(env, "GOFLAGS=-mod=mod", "GOPROXY=off", "GOSUMDB=off", "GOTOOLCHAIN=local")
	return env
}

func build(id string, sp spec, bin, work string) (string, error) {
	args := []string{"test", "-c", "-vet=off", "-o", bin}
	if sp.Race {
		args = append(args, "-race")
	}
	if repo := os.Getenv("VERIF_REPO"); repo != "" && repo != "/repo" {
		// alternative module file whose replace points at a scratch copy
		mod, err := os.ReadFile(filepath.Join(root, "go.mod"))
		if err != nil {
			return "", err
		}
		alt := strings.Replace(string(mod), "=> /repo", "=> "+repo, 1)
		altPath := filepath.Join(work, "alt.mod")
		if err := os.WriteFile(altPath, []byte(alt), 0o644); err != nil {
			return "", err
		}
		sum, _ := os.ReadFile(filepath.Join(root, "go.sum"))
		_ = os.WriteFile(filepath.Join(work, "alt.sum"), sum, 0o644)
		args = append(args, "-modfile", altPath)
	}
	args = append(args, "./props/"+strings.ToLower(id))
	cmd := exec.Command("go", args...)
	cmd.Dir = root
	cmd.Env = goEnv()
	out, err := cmd.CombinedOutput()
	return string(out), err
}

type shardResult struct {
	idx      int
	frags    []fragment // one per (re)start
	deaths   []death
	timedOut bool
	dir      string
	exit     int
	maxRSS   int64 // KiB, the largest of the shard's processes
}

type death struct {
	Journal string
	LogTail string
	Sig     string
	Class   string
}

type fragment struct {
	harness.Fragment
	NTHashesB string   `json:"nt_hashes_b"`
	VPaths    []string `json:"violation_paths"`
}

func runShard(id string, sp spec, bin, work string, idx, nsh int, tier string, seed uint64, deadline time.Time, runRe string) *shardResult {
	res := &shardResult{idx: idx}
	dir := filepath.Join(work, fmt.Sprintf("s%02d", idx))
	res.dir = dir
	_ = os.MkdirAll(dir, 0o755)
	skipPath := filepath.Join(dir, "skip.txt")
	journal := filepath.Join(dir, "journal.txt")
	doneCases := map[string]int64{}
	for attempt := 0; ; attempt++ {
		fragPath := filepath.Join(dir, fmt.Sprintf("frag%d.json", attempt))
		logPath := filepath.Join(dir, fmt.Sprintf("log%d.txt", attempt))
		_ = os.Remove(journal)
		targs := []string{"-test.timeout=0", "-test.count=1"}
		if runRe != "" {
			targs = append(targs, "-test.run="+runRe)
		}
		var cmd *exec.Cmd
		if sp.MemGiB > 0 && !sp.Race {
			sh := fmt.Sprintf("ulimit -v %d; exec \"$0\" \"$@\"", sp.MemGiB*1024*1024)
			cmd = exec.Command("sh", append([]string{"-c", sh, bin}, targs...)...)
		} else {
			cmd = exec.Command(bin, targs...)
		}
		cmd.Dir = dir
		cmd.Env = append(os.Environ(),
			"VERIF_TIER="+tier,
			fmt.Sprintf("VERIF_SEED=%d", seed),
			fmt.Sprintf("VERIF_SHARD=%d", idx),
			fmt.Sprintf("VERIF_NSHARDS=%d", nsh),
			"VERIF_ROOT="+root,
			"VERIF_FRAG="+fragPath,
			"VERIF_JOURNAL="+journal,
			"VERIF_SKIP="+skipPath,
			fmt.Sprintf("VERIF_ATTEMPT=%d", attempt),
			"VERIF_DONE="+mustJSON(doneCases),
			"GORACE=halt_on_error=0 history_size=3",
			"GOTRACEBACK=all",
		)
		cmd.SysProcAttr = &syscall.SysProcAttr{Setpgid: true}
		lf, _ := os.Create(logPath)
		cmd.Stdout = lf
		cmd.Stderr = lf
		if err := cmd.Start(); err != nil {
			lf.Close()
			res.exit = 2
			return res
		}
		done := make(chan error, 1)
		go func() { done <- cmd.Wait() }()
		var err error
		select {
		case err = <-done:
		case <-time.After(time.Until(deadline)):
			_ = syscall.Kill(-cmd.Process.Pid, syscall.SIGKILL)
			<-done
			res.timedOut = true
		}
		lf.Close()
		if cmd.ProcessState != nil {
			if ru, ok := cmd.ProcessState.SysUsage().(*syscall.Rusage); ok && ru.Maxrss > res.maxRSS {
				res.maxRSS = ru.Maxrss
			}
		}
		fr, ferr := readFrag(fragPath)
		if ferr == nil {
			res.frags = append(res.frags, fr)
			for k, v := range fr.Tests {
				doneCases[k] += v
			}
		}
		if res.timedOut {
			return res
		}
		code := 0
		if err != nil {
			code = 1
			if ee, ok := err.(*exec.ExitError); ok {
				code = ee.ExitCode()
			}
		}
		res.exit = code
		if ferr == nil && fr.Completed {
			return res
		}
		// the process died before finishing
		d := death{LogTail: tail(logPath, 120)}
		if jb, e := os.ReadFile(journal); e == nil {
			d.Journal = strings.TrimSpace(string(jb))
		}
		d.Class, d.Sig = classifyDeath(d.LogTail)
		res.deaths = append(res.deaths, d)
		if !sp.Isolate || d.Journal == "" || attempt >= 400 {
			return res
		}
		// exclude the open case and restart with the same seed
		f, _ := os.OpenFile(skipPath, os.O_APPEND|os.O_CREATE|os.O_WRONLY, 0o644)
		fmt.Fprintln(f, d.Journal)
		f.Close()
	}
}

func mustJSON(v any) string {
	b, _ := json.Marshal(v)
	return string(b)
}

func readFrag(p string) (fragment, error) {
	var fr fragment
	b, err := os.ReadFile(p)
	if err != nil {
		return fr, err
	}
	err = json.Unmarshal(b, &fr)
	return fr, err
}

func tail(path string, n int) string {
	b, err := os.ReadFile(path)
	if err != nil {
		return ""
	}
	if len(b) > 4<<20 {
		// keep head (fault header) and tail
		b = append(append([]byte{}, b[:1<<20]...), b[len(b)-(1<<20):]...)
	}
	lines := strings.Split(string(b), "\n")
	// find the fault header: a fatal fault wins over race reports
	first := -1
	for i, l := range lines {
		if strings.HasPrefix(l, "fatal error:") || strings.HasPrefix(l, "panic:") || strings.HasPrefix(l, "runtime: out of memory") || strings.HasPrefix(l, "runtime: goroutine stack exceeds") || strings.HasPrefix(l, "VERIF-HANG") {
			first = i
			break
		}
	}
	if first < 0 {
		for i, l := range lines {
			if strings.Contains(l, "WARNING: DATA RACE") {
				first = i
				break
			}
		}
	}
	for i := range lines {
		if i == first {
			end := i + n
			if end > len(lines) {
				end = len(lines)
			}
			st := i - 3
			if st < 0 {
				st = 0
			}
			return strings.Join(lines[st:end], "\n")
		}
	}
	if len(lines) > n {
		lines = lines[len(lines)-n:]
	}
	return strings.Join(lines, "\n")
}

var reAlloc = regexp.MustCompile(`cannot allocate (\d+)-byte block`)

func classifyDeath(log string) (class, sig string) {
	frame := harness.TopRepoFrame(stripArgs(log))
	switch {
	case strings.Contains(log, "VERIF-HANG"):
		return "hang", "hang"
	case strings.Contains(log, "fatal error: runtime: out of memory") || strings.Contains(log, "fatal error: out of memory") || strings.Contains(log, "runtime: out of memory") || strings.Contains(log, "cannot allocate memory") || strings.Contains(log, "errno=12"):
		class = "oom-small"
		if m := reAlloc.FindStringSubmatch(log); m != nil {
			if n, _ := strconv.ParseInt(m[1], 10, 64); n >= 1<<30 {
				class = "oom-single-block"
			}
		} else if strings.Contains(log, "makeslice: len out of range") || strings.Contains(log, "too large") {
			class = "oom-single-block"
		}
	case strings.Contains(log, "stack exceeds") || strings.Contains(log, "stack overflow"):
		class = "stack-overflow"
	case strings.Contains(log, "concurrent map"):
		class = "concurrent-map"
	case strings.Contains(log, "fatal error:"):
		class = "fatal"
	case strings.Contains(log, "panic:"):
		class = "panic"
	default:
		class = "killed"
	}
	return class, "death:" + class + ":" + frame
}

var reFrameArgs = regexp.MustCompile(`\(0x[0-9a-f?, .x{}]*\)$|\(\.\.\.\)$`)

func stripArgs(s string) string {
	lines := strings.Split(s, "\n")
	for i, l := range lines {
		lines[i] = reFrameArgs.ReplaceAllString(strings.TrimRight(l, " \t"), "(")
		if strings.HasSuffix(lines[i], "(") {
			continue
		}
	}
	return strings.Join(lines, "\n")
}

var (
	evidenceDir = "evidence"
	workDir     string
)

type evidence struct {
	PropertyID  string         `json:"property_id"`
	Tier        string         `json:"tier"`
	Seed        int64          `json:"seed"`
	Level       string         `json:"level"`
	Coverage    map[string]any `json:"coverage"`
	Assumptions []string       `json:"assumptions"`
	WallS       float64        `json:"wall_s"`
	Violations  int            `json:"violations"`
}

func merge(id string, sp spec, tier string, seed uint64, results []*shardResult, wall float64) int {
	known := harness.LoadKnownAll(root, id)
	var evals, ntEvals int64
	nt := map[uint64]struct{}{}
	overrun := false
	labels := map[string]int64{}
	excluded := map[string]int64{}
	tests := map[string]int64{}
	extra := map[string]any{}
	var samplesByShard [][]any
	var viols []harness.Violation
	var vpaths []string
	inconclusive := []string{}
	excludedAfterCrash := 0
	resourceInconclusive := 0
	type confirmResult struct {
		d    death
		died bool
	}
	oomConfirmed := map[string]confirmResult{}
	suspectedHangs := []string{}
	inconclusiveFuzz := []string{}
	rule := ""
	var assumptions []string

	for _, r := range results {
		if r == nil {
			inconclusive = append(inconclusive, "shard did not start")
			continue
		}
		if r.timedOut {
			inconclusive = append(inconclusive, fmt.Sprintf("shard %d exceeded the harness time limit", r.idx))
		}
		for _, fr := range r.frags {
			evals += fr.Evaluations
			ntEvals += fr.NonTrivial
			if fr.NTHashOverrun {
				overrun = true
			}
			if b, err := hex.DecodeString(fr.NTHashesB); err == nil {
				for i := 0; i+8 <= len(b); i += 8 {
					nt[binary.LittleEndian.Uint64(b[i:])] = struct{}{}
				}
			}
			for k, v := range fr.Labels {
				labels[k] += v
			}
			for k, v := range fr.ExcludedKnown {
				excluded[k] += v
			}
			for k, v := range fr.Tests {
				tests[k] += v
			}
			for k, v := range fr.Extra {
				switch k {
				case "rule":
					if s, ok := v.(string); ok {
						rule = s
					}
					continue
				case "assumptions":
					if a, ok := v.([]any); ok && assumptions == nil {
						for _, x := range a {
							if s, ok := x.(string); ok {
								assumptions = append(assumptions, s)
							}
						}
					}
					continue
				}
				if _, exists := extra[k]; !exists {
					extra[k] = v
				}
			}
			for k, v := range fr.ExtraSum {
				old, _ := extra[k].(int64)
				extra[k] = old + v
			}
			samplesByShard = append(samplesByShard, fr.Samples)
			for i, v := range fr.Violations {
				if i < len(fr.VPaths) {
					v.Path = fr.VPaths[i]
				}
				attachRapidFail(id, r.dir, &v)
				viols = append(viols, v)
			}
		}
		for _, d := range r.deaths {
			// a dead process is attributed to its open case
			if d.Class == "hang" {
				suspectedHangs = append(suspectedHangs, d.Journal)
				continue
			}
			if d.Class == "killed" {
				inconclusive = append(inconclusive, fmt.Sprintf("shard %d died without a Go fault message (exit %d)", r.idx, r.exit))
				continue
			}
			if strings.HasPrefix(d.Class, "oom") {
				// the harness's own ulimit can manufacture an out-of-memory
				// death: re-run the open case alone under a 48 GiB limit and
				// count it only if the process still dies
				if !sp.Isolate {
					resourceInconclusive++
					inconclusive = append(inconclusive, fmt.Sprintf("shard %d ran into the harness memory limit", r.idx))
					continue
				}
				// one confirmation per fault site is enough (each costs a
				// process start and up to minutes under a large limit)
				cached, seen := oomConfirmed[d.Sig]
				if !seen {
					d2, died := confirmDeath(id, r.dir, d, tier, seed, r.idx, len(results))
					cached = confirmResult{d2, died}
					oomConfirmed[d.Sig] = cached
				}
				if !cached.died {
					resourceInconclusive++
					continue
				}
				j := d.Journal
				d = cached.d
				d.Journal = j
			}
			excludedAfterCrash++
			if matchKnown(known, d.Sig, excluded) {
				continue
			}
			v := harness.Violation{Property: id, Test: "process-death", Signature: d.Sig, Message: d.LogTail,
				Case: map[string]any{"journal": d.Journal}, Tier: tier, Seed: seed, Shard: r.idx, NShards: len(results)}
			v.Path = writeViolation(id, v)
			viols = append(viols, v)
		}
		// a failing shard without any recorded violation: keep its log
		if len(r.deaths) == 0 && !r.timedOut && r.exit != 0 {
			has := false
			for _, fr := range r.frags {
				if len(fr.Violations) > 0 {
					has = true
				}
			}
			if !has {
				lt := ""
				for a := 5; a >= 0; a-- {
					if t := tail(filepath.Join(r.dir, fmt.Sprintf("log%d.txt", a)), 150); t != "" {
						lt = t
						break
					}
				}
				sig := "test-failure:" + harness.TopRepoFrame(stripArgs(lt))
				if strings.Contains(lt, "DATA RACE") {
					sig = "data-race:" + raceSig(lt)
				}
				if !matchKnown(known, sig, excluded) {
					v := harness.Violation{Property: id, Test: "shard-failure", Signature: sig, Message: lt, Tier: tier, Seed: seed, Shard: r.idx, NShards: len(results)}
					v.Path = writeViolation(id, v)
					viols = append(viols, v)
				}
			}
		}
	}

	// native fuzzing (thorough tier)
	var fuzzExecs int64
	for _, fr := range fuzzResults {
		fuzzExecs += fr.Execs
		switch fr.Status {
		case "ok":
		case "failed":
			sig := "fuzz:" + fr.Target + ":" + harness.FaultFrame(stripArgs(fr.LogTail))
			if m := regexp.MustCompile(`\[([^\]\s]+)\]`).FindStringSubmatch(fr.LogTail); m != nil {
				sig = m[1]
			}
			if strings.Contains(fr.LogTail, "fuzzing process hung or terminated unexpectedly") {
				// a worker died or hung: resource limits can cause that
				inconclusiveFuzz = append(inconclusiveFuzz, fr.Target+": worker terminated unexpectedly (input kept: "+fr.Crasher+")")
				continue
			}
			if matchKnown(known, sig, excluded) {
				continue
			}
			v := harness.Violation{Property: id, Test: fr.Target, Signature: sig, Message: fr.LogTail, Tier: tier, Seed: seed,
				Case: map[string]any{"fuzz_crasher": fr.Crasher}}
			if fr.Crasher != "" {
				dst := filepath.Join(root, "replays", id, "fuzz-"+fr.Target+"-"+filepath.Base(fr.Crasher))
				_ = os.MkdirAll(filepath.Dir(dst), 0o755)
				if copyFile(fr.Crasher, dst) == nil {
					v.Case = map[string]any{"fuzz_crasher": dst}
				}
			}
			v.Path = writeViolation(id, v)
			viols = append(viols, v)
		default:
			inconclusiveFuzz = append(inconclusiveFuzz, fr.Target+": "+fr.Status)
		}
	}
	evals += fuzzExecs

	// samples: round robin over shards, at most 12
	var samples []any
	for i := 0; len(samples) < 12; i++ {
		any := false
		for _, s := range samplesByShard {
			if i < len(s) {
				any = true
				if len(samples) < 12 {
					samples = append(samples, s[i])
				}
			}
		}
		if !any {
			break
		}
	}
	if len(samples) == 0 {
		samples = []any{"no sample recorded"}
	}

	// one VIOLATION line per distinct signature
	seen := map[string]bool{}
	var lines []string
	for _, v := range viols {
		if seen[v.Signature] {
			continue
		}
		seen[v.Signature] = true
		lines = append(lines, fmt.Sprintf("VIOLATION property=%s replay=%s", id, v.Path))
		vpaths = append(vpaths, v.Path)
	}

	cov := map[string]any{
		"evaluations":            evals,
		"distinct_nontrivial":    len(nt),
		"nontrivial_evaluations": ntEvals,
		"rule":                   rule,
		"samples":                samples,
		"labels":                 labels,
		"excluded_known":         excluded,
		"excluded_after_crash":   excludedAfterCrash,
		"resource_inconclusive":  resourceInconclusive,
		"suspected_hangs":        suspectedHangs,
		"native_fuzzing":         fuzzResults,
		"native_fuzzing_notes":   inconclusiveFuzz,
		"shards":                 len(results),
		"cases_per_test":         tests,
		"violation_signatures":   keys(seen),
		"violation_replays":      vpaths,
		"inconclusive":           inconclusive,
	}
	if overrun {
		cov["distinct_nontrivial_note"] = "hash set capped; the true number is larger"
	}
	for k, v := range extra {
		if _, ok := cov[k]; !ok {
			cov[k] = v
		}
	}
	ev := evidence{PropertyID: id, Tier: tier, Seed: int64(seed), Level: sp.Level, Coverage: cov, Assumptions: assumptions, WallS: wall, Violations: len(lines)}
	if ev.Assumptions == nil {
		ev.Assumptions = []string{}
	}
	b, _ := json.MarshalIndent(ev, "", " ")
	_ = os.MkdirAll(filepath.Join(root, evidenceDir), 0o755)
	_ = os.WriteFile(filepath.Join(root, evidenceDir, id+".json"), b, 0o644)

	var maxRSS int64
	for _, r := range results {
		if r.maxRSS > maxRSS {
			maxRSS = r.maxRSS
		}
	}
	fmt.Printf("property=%s tier=%s seed=%d shards=%d evaluations=%d distinct_nontrivial=%d wall=%.1fs max_shard_rss=%dMiB\n", id, tier, seed, len(results), evals, len(nt), wall, maxRSS>>10)
	for _, k := range known {
		if k.Kind == "known" {
			fmt.Printf("KNOWN-FINDING: property=%s %s (sig=%s, excluded on this run: %d)\n", id, k.Text, k.Sig, excluded[k.Sig])
		}
	}
	for _, l := range lines {
		fmt.Println(l)
	}
	if len(lines) > 0 {
		return 1
	}
	if len(inconclusive) > 0 {
		for _, s := range inconclusive {
			fmt.Printf("INCONCLUSIVE property=%s %s\n", id, s)
		}
		return 2
	}
	if evals == 0 && len(lines) == 0 {
		fmt.Printf("INCONCLUSIVE property=%s no case was evaluated\n", id)
		return 2
	}
	return 0
}

// confirmDeath replays a journalled case alone in a fresh process with a large
// memory limit; it reports whether the process died again with a Go fault.
func confirmDeath(id, shardDir string, d death, tier string, seed uint64, shard, nsh int) (death, bool) {
	bin := filepath.Join(workDir, strings.ToLower(id)+".test")
	rp := filepath.Join(shardDir, fmt.Sprintf("confirm-%016x.json", harness.HashBytes([]byte(d.Journal))))
	b, _ := json.Marshal(map[string]any{"property": id, "test": "process-death", "case": map[string]any{"journal": d.Journal}})
	_ = os.WriteFile(rp, b, 0o644)
	logPath := rp + ".log"
	sh := fmt.Sprintf("ulimit -v %d; exec \"$0\" \"$@\"", 48*1024*1024)
	cmd := exec.Command("sh", "-c", sh, bin, "-test.run=^TestReplay$", "-test.timeout=0", "-test.count=1")
	cmd.Dir = shardDir
	cmd.Env = append(os.Environ(), "VERIF_TIER="+tier, fmt.Sprintf("VERIF_SEED=%d", seed), "VERIF_ROOT="+root,
		"VERIF_REPLAY="+rp, "VERIF_NOWRITE_REPLAY=1", "GOTRACEBACK=all", "VERIF_FRAG="+rp+".frag")
	cmd.SysProcAttr = &syscall.SysProcAttr{Setpgid: true}
	lf, _ := os.Create(logPath)
	cmd.Stdout, cmd.Stderr = lf, lf
	if err := cmd.Start(); err != nil {
		lf.Close()
		return d, false
	}
	done := make(chan error, 1)
	go func() { done <- cmd.Wait() }()
	var err error
	select {
	case err = <-done:
	case <-time.After(180 * time.Second):
		_ = syscall.Kill(-cmd.Process.Pid, syscall.SIGKILL)
		<-done
		lf.Close()
		return d, false
	}
	lf.Close()
	if err == nil {
		return d, false
	}
	lt := tail(logPath, 120)
	class, sig := classifyDeath(lt)
	if class == "killed" || class == "hang" {
		return d, false
	}
	return death{Journal: d.Journal, LogTail: lt, Class: class + "-confirmed-alone-48GiB", Sig: sig}, true
}

func keys(m map[string]bool) []string {
	out := []string{}
	for k := range m {
		out = append(out, k)
	}
	sort.Strings(out)
	return out
}

func matchKnown(known []harness.KnownEntry, sig string, excluded map[string]int64) bool {
	for _, k := range known {
		if k.Kind == "known" && k.Matches(sig) {
			excluded[k.Sig]++
			return true
		}
	}
	return false
}

var reRaceFn = regexp.MustCompile(`(?m)^\s+(github\.com/wader/fq/[^\s(]+)`)

func raceSig(log string) string {
	m := reRaceFn.FindAllStringSubmatch(log, 4)
	var fs []string
	for _, x := range m {
		f := strings.TrimPrefix(x[1], "github.com/wader/fq/")
		if strings.HasPrefix(f, "verif/") {
			continue
		}
		fs = append(fs, f)
		if len(fs) == 1 {
			break
		}
	}
	if len(fs) == 0 {
		return "unknown"
	}
	return fs[0]
}

func writeViolation(id string, v harness.Violation) string {
	dir := filepath.Join(root, "replays", id)
	_ = os.MkdirAll(dir, 0o755)
	b, _ := json.MarshalIndent(v, "", " ")
	p := filepath.Join(dir, fmt.Sprintf("%s-%016x.json", v.Test, harness.HashBytes(b)))
	_ = os.WriteFile(p, b, 0o644)
	return p
}

// attachRapidFail copies rapid's fail file next to the replay JSON.
func attachRapidFail(id, shardDir string, v *harness.Violation) {
	if v.Path == "" || v.Test == "" {
		return
	}
	pat := filepath.Join(shardDir, "testdata", "rapid", "*", "*.fail")
	ms, _ := filepath.Glob(pat)
	base := v.Test
	if i := strings.LastIndex(base, "/"); i >= 0 {
		base = base[i+1:]
	}
	for _, m := range ms {
		if !strings.Contains(filepath.Base(m), base) {
			continue
		}
		dst := strings.TrimSuffix(v.Path, ".json") + ".fail"
		if copyFile(m, dst) == nil {
			v.RapidFail = dst
			// rewrite the JSON with the reference
			if b, err := os.ReadFile(v.Path); err == nil {
				var mm map[string]any
				if json.Unmarshal(b, &mm) == nil {
					mm["rapid_failfile"] = dst
					nb, _ := json.MarshalIndent(mm, "", " ")
					_ = os.WriteFile(v.Path, nb, 0o644)
				}
			}
		}
		return
	}
}

func copyFile(src, dst string) error {
	in, err := os.Open(src)
	if err != nil {
		return err
	}
	defer in.Close()
	out, err := os.Create(dst)
	if err != nil {
		return err
	}
	defer out.Close()
	_, err = io.Copy(out, in)
	return err
}

func doReplay(id string, sp spec, bin, work, path string) int {
	b, err := os.ReadFile(path)
	if err != nil {
		fmt.Fprintln(os.Stderr, "vcheck: replay:", err)
		return 2
	}
	var v harness.Violation
	if err := json.Unmarshal(b, &v); err != nil {
		fmt.Fprintln(os.Stderr, "vcheck: replay:", err)
		return 2
	}
	abs, _ := filepath.Abs(path)
	dir := filepath.Join(work, "replay")
	_ = os.MkdirAll(dir, 0o755)
	targs := []string{"-test.timeout=0", "-test.count=1", "-test.v"}
	test := v.Test
	if strings.HasPrefix(test, "Fuzz") {
		// a native fuzz crasher: place it in the seed corpus directory and run the target over it
		if cm, ok := v.Case.(map[string]any); ok {
			if cr, _ := cm["fuzz_crasher"].(string); cr != "" {
				cdir := filepath.Join(dir, "testdata", "fuzz", test)
				_ = os.MkdirAll(cdir, 0o755)
				_ = copyFile(cr, filepath.Join(cdir, filepath.Base(cr)))
			}
		}
	}
	if sp.ReplayTest != "" && !strings.HasPrefix(test, "Fuzz") && test != "shard-failure" {
		if cm, ok := v.Case.(map[string]any); ok {
			if dm, ok := cm["data"].(map[string]any); ok && dm["case"] != nil {
				test = sp.ReplayTest
			}
		}
	}
	if test != "" && test != "process-death" && test != "shard-failure" {
		top := test
		if i := strings.Index(top, "/"); i >= 0 {
			top = top[:i]
		}
		targs = append(targs, "-test.run=^"+regexp.QuoteMeta(top)+"$")
	}
	tier := v.Tier
	if tier == "" {
		tier = "quick"
	}
	nsh := v.NShards
	if nsh == 0 {
		nsh = 1
	}
	seed := v.Seed
	if seed == 0 {
		seed = 1
	}
	reps := 1
	if sp.Race {
		reps = 10
	}
	for rep := 0; rep < reps; rep++ {
		var cmd *exec.Cmd
		if sp.MemGiB > 0 && !sp.Race {
			sh := fmt.Sprintf("ulimit -v %d; exec \"$0\" \"$@\"", sp.MemGiB*1024*1024)
			cmd = exec.Command("sh", append([]string{"-c", sh, bin}, targs...)...)
		} else {
			cmd = exec.Command(bin, targs...)
		}
		cmd.Dir = dir
		fragPath := filepath.Join(dir, "frag.json")
		_ = os.Remove(fragPath)
		cmd.Env = append(os.Environ(),
			"VERIF_TIER="+tier,
			fmt.Sprintf("VERIF_SEED=%d", seed),
			fmt.Sprintf("VERIF_SHARD=%d", v.Shard),
			fmt.Sprintf("VERIF_NSHARDS=%d", nsh),
			"VERIF_ROOT="+root,
			"VERIF_FRAG="+fragPath,
			"VERIF_REPLAY="+abs,
			"VERIF_RAPID_FAILFILE="+v.RapidFail,
			"VERIF_NOWRITE_REPLAY=1",
			"GOTRACEBACK=all",
		)
		var out bytes.Buffer
		cmd.Stdout = &out
		cmd.Stderr = &out
		err = cmd.Run()
		o := out.String()
		if len(o) > 20000 {
			o = o[:10000] + "\n...\n" + o[len(o)-10000:]
		}
		fmt.Println(o)
		if err != nil {
			fmt.Printf("VIOLATION property=%s replay=%s\n", id, abs)
			return 1
		}
	}
	fmt.Printf("replay of %s passed\n", abs)
	return 0
}
