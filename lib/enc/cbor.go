package enc

import (
	"math"
)

// CBOR encodes v following RFC 8949.  W.Form selects among the argument forms
// that can hold the count (immediate, 1, 2, 4, 8 bytes - a longer form than
// necessary is well-formed, only "preferred serialization" asks for the
// shortest), W.Indef the indefinite-length form of strings, byte strings,
// arrays and maps, W.Chunks the chunking of indefinite strings, W.FBits the
// float width (used when exact).
func CBOR(v *V, f Feat) []byte {
	return cborAppend(nil, v, f)
}

func cborHead(b []byte, major byte, n uint64, form int, f Feat) []byte {
	var heads [][]byte
	var names []string
	if n < 24 {
		heads, names = append(heads, []byte{major<<5 | byte(n)}), append(names, "imm")
	}
	if n <= 0xff {
		heads, names = append(heads, []byte{major<<5 | 24, byte(n)}), append(names, "8bit")
	}
	if n <= 0xffff {
		heads, names = append(heads, append([]byte{major<<5 | 25}, be(2, n)...)), append(names, "16bit")
	}
	if n <= 0xffffffff {
		heads, names = append(heads, append([]byte{major<<5 | 26}, be(4, n)...)), append(names, "32bit")
	}
	heads, names = append(heads, append([]byte{major<<5 | 27}, be(8, n)...)), append(names, "64bit")
	i := pick(form, len(heads))
	f.Add("cbor:arg-" + names[i])
	if i > 0 {
		f.Add("nonminimal-length")
	}
	return append(b, heads[i]...)
}

var cborMajorNames = [...]string{"uint", "nint", "bytes", "text", "array", "map", "tag", "simple"}

func cborAppend(b []byte, v *V, f Feat) []byte {
	switch v.K {
	case Null:
		f.Add("cbor:null")
		return append(b, 0xf6)
	case Bool:
		f.Add("cbor:bool")
		if v.B {
			return append(b, 0xf5)
		}
		return append(b, 0xf4)
	case Int:
		if v.Neg {
			f.Add("cbor:nint")
			return cborHead(b, 1, v.U, v.W.Form, f)
		}
		f.Add("cbor:uint")
		return cborHead(b, 0, v.U, v.W.Form, f)
	case Float:
		if v.W.FBits == 16 {
			if h, ok := F16Bits(v.F); ok {
				f.Add("cbor:float16")
				return append(append(b, 0xf9), be(2, uint64(h))...)
			}
		}
		if v.W.FBits == 16 || v.W.FBits == 32 {
			if f32 := float32(v.F); float64(f32) == v.F || v.F != v.F {
				f.Add("cbor:float32")
				return append(append(b, 0xfa), be(4, uint64(math.Float32bits(f32)))...)
			}
		}
		f.Add("cbor:float64")
		return append(append(b, 0xfb), be(8, math.Float64bits(v.F))...)
	case Str:
		if v.W.Indef {
			f.Add("cbor:indef-text")
			b = append(b, 0x7f)
			cs := chunksStr(v.S, v.W.Chunks)
			for i, c := range cs {
				b = cborHead(b, 3, uint64(len(c)), v.W.Form*(i+1), f)
				b = append(b, c...)
			}
			if len(cs) > 1 {
				f.Add("cbor:indef-chunks>1")
			}
			return append(b, 0xff)
		}
		f.Add("cbor:text")
		b = cborHead(b, 3, uint64(len(v.S)), v.W.Form, f)
		return append(b, v.S...)
	case Bytes, Ext:
		if v.W.Indef {
			f.Add("cbor:indef-bytes")
			b = append(b, 0x5f)
			cs := chunks(v.Bin, v.W.Chunks)
			for i, c := range cs {
				b = cborHead(b, 2, uint64(len(c)), v.W.Form*(i+1), f)
				b = append(b, c...)
			}
			if len(cs) > 1 {
				f.Add("cbor:indef-chunks>1")
			}
			return append(b, 0xff)
		}
		f.Add("cbor:bytes")
		b = cborHead(b, 2, uint64(len(v.Bin)), v.W.Form, f)
		return append(b, v.Bin...)
	case Arr:
		if v.W.Indef {
			f.Add("cbor:indef-array")
			if len(v.A) > 31 {
				f.Add("cbor:indef-container>31")
			}
			b = append(b, 0x9f)
			for _, a := range v.A {
				b = cborAppend(b, a, f)
			}
			return append(b, 0xff)
		}
		f.Add("cbor:array")
		b = cborHead(b, 4, uint64(len(v.A)), v.W.Form, f)
		for _, a := range v.A {
			b = cborAppend(b, a, f)
		}
		return b
	case Map:
		if v.W.Indef {
			f.Add("cbor:indef-map")
			if len(v.M) > 31 {
				f.Add("cbor:indef-container>31")
			}
			b = append(b, 0xbf)
			for _, kv := range v.M {
				b = cborAppend(b, kv.K, f)
				b = cborAppend(b, kv.V, f)
			}
			return append(b, 0xff)
		}
		f.Add("cbor:map")
		b = cborHead(b, 5, uint64(len(v.M)), v.W.Form, f)
		for _, kv := range v.M {
			b = cborAppend(b, kv.K, f)
			b = cborAppend(b, kv.V, f)
		}
		return b
	}
	panic("enc: cbor: unknown kind")
}

// F16Bits converts f to IEEE 754 binary16 if that is exact.
func F16Bits(f float64) (uint16, bool) {
	if f != f {
		return 0x7e00, true
	}
	bits := math.Float64bits(f)
	sign := uint16(bits>>48) & 0x8000
	if math.IsInf(f, 0) {
		return sign | 0x7c00, true
	}
	if f == 0 {
		return sign, true
	}
	exp := int(bits>>52&0x7ff) - 1023
	man := bits & (1<<52 - 1)
	if bits>>52&0x7ff == 0 {
		return 0, false // float64 subnormal: far below half range
	}
	switch {
	case exp >= -14 && exp <= 15:
		if man&(1<<42-1) != 0 {
			return 0, false
		}
		return sign | uint16(exp+15)<<10 | uint16(man>>42), true
	case exp >= -24 && exp < -14:
		// half subnormal: value = m * 2^-24, m in 1..1023
		full := man | 1<<52 // 53 bit significand, value = full * 2^(exp-52)
		shift := uint(52 - (exp + 24))
		if shift >= 64 || full&(1<<shift-1) != 0 {
			return 0, false
		}
		return sign | uint16(full>>shift), true
	}
	return 0, false
}

// F16Value is the value of a binary16 bit pattern.
func F16Value(h uint16) float64 {
	sign := 1.0
	if h&0x8000 != 0 {
		sign = -1
	}
	exp := int(h >> 10 & 0x1f)
	man := float64(h & 0x3ff)
	switch exp {
	case 0:
		return sign * man * math.Pow(2, -24)
	case 31:
		if man == 0 {
			return sign * math.Inf(1)
		}
		return math.NaN()
	}
	return sign * (1 + man/1024) * math.Pow(2, float64(exp-15))
}
