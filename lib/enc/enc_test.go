package enc

import (
	"bytes"
	"encoding/asn1"
	"encoding/csv"
	"encoding/hex"
	"encoding/json"
	"math"
	"math/big"
	"math/rand"
	"reflect"
	"strings"
	"testing"
)

func arr(vs ...*V) *V { return &V{K: Arr, A: vs} }
func obj(kvs ...any) *V {
	m := &V{K: Map}
	for i := 0; i < len(kvs); i += 2 {
		m.M = append(m.M, KV{K: NewStr(kvs[i].(string)), V: kvs[i+1].(*V)})
	}
	return m
}
func f16(f float64) *V        { v := NewFloat(f); v.W.FBits = 16; return v }
func bin(b ...byte) *V        { return &V{K: Bytes, Bin: b} }
func indef(v *V, c ...int) *V { v.W.Indef = true; v.W.Chunks = c; return v }

// RFC 8949 Appendix A (preferred serialization: shortest float that is exact)
func TestCBORVectors(t *testing.T) {
	neg := func(u uint64) *V { return &V{K: Int, Neg: true, U: u} }
	var ints []*V
	for i := 1; i <= 25; i++ {
		ints = append(ints, NewInt(int64(i)))
	}
	for _, c := range []struct {
		v   *V
		hex string
	}{
		{NewInt(0), "00"}, {NewInt(23), "17"}, {NewInt(24), "1818"}, {NewInt(100), "1864"}, {NewInt(1000), "1903e8"},
		{NewInt(1000000), "1a000f4240"}, {NewInt(1000000000000), "1b000000e8d4a51000"}, {NewUint(math.MaxUint64), "1bffffffffffffffff"},
		{NewInt(-1), "20"}, {NewInt(-10), "29"}, {NewInt(-100), "3863"}, {NewInt(-1000), "3903e7"}, {neg(math.MaxUint64), "3bffffffffffffffff"},
		{f16(0), "f90000"}, {f16(math.Copysign(0, -1)), "f98000"}, {f16(1), "f93c00"}, {f16(1.1), "fb3ff199999999999a"}, {f16(1.5), "f93e00"},
		{f16(65504), "f97bff"}, {f16(100000), "fa47c35000"}, {f16(3.4028234663852886e+38), "fa7f7fffff"}, {f16(1.0e+300), "fb7e37e43c8800759c"},
		{f16(5.960464477539063e-8), "f90001"}, {f16(0.00006103515625), "f90400"}, {f16(-4), "f9c400"}, {f16(-4.1), "fbc010666666666666"},
		{f16(math.Inf(1)), "f97c00"}, {f16(math.NaN()), "f97e00"}, {f16(math.Inf(-1)), "f9fc00"},
		{&V{K: Bool}, "f4"}, {&V{K: Bool, B: true}, "f5"}, {&V{K: Null}, "f6"},
		{bin(), "40"}, {bin(1, 2, 3, 4), "4401020304"}, {NewStr(""), "60"}, {NewStr("a"), "6161"}, {NewStr("IETF"), "6449455446"},
		{NewStr("\"\\"), "62225c"}, {NewStr("ü"), "62c3bc"}, {NewStr("水"), "63e6b0b4"}, {NewStr("\U00010151"), "64f0908591"},
		{arr(), "80"}, {arr(NewInt(1), NewInt(2), NewInt(3)), "83010203"},
		{arr(NewInt(1), arr(NewInt(2), NewInt(3)), arr(NewInt(4), NewInt(5))), "8301820203820405"},
		{arr(ints...), "98190102030405060708090a0b0c0d0e0f101112131415161718181819"},
		{obj(), "a0"}, {obj("a", NewInt(1), "b", arr(NewInt(2), NewInt(3))), "a26161016162820203"},
		{indef(bin(1, 2, 3, 4, 5), 2), "5f42010243030405ff"}, {indef(NewStr("streaming"), 5), "7f657374726561646d696e67ff"},
		{indef(arr()), "9fff"},
		{indef(arr(NewInt(1), arr(NewInt(2), NewInt(3)), indef(arr(NewInt(4), NewInt(5))))), "9f018202039f0405ffff"},
		{indef(obj("a", NewInt(1), "b", indef(arr(NewInt(2), NewInt(3))))), "bf61610161629f0203ffff"},
	} {
		if got := hex.EncodeToString(CBOR(c.v, nil)); got != c.hex {
			t.Errorf("cbor %s: got %s want %s", c.v, got, c.hex)
		}
	}
	// non-preferred argument forms
	v := NewInt(5)
	v.W.Form = 4
	if got := hex.EncodeToString(CBOR(v, nil)); got != "1b0000000000000005" {
		t.Errorf("cbor 5 in 64 bit form: %s", got)
	}
}

func TestF16(t *testing.T) {
	for h := 0; h < 1<<16; h++ {
		f := F16Value(uint16(h))
		back, ok := F16Bits(f)
		if !ok {
			t.Fatalf("%#x: value %v not convertible back", h, f)
		}
		if f != f {
			continue
		}
		if back != uint16(h) {
			t.Fatalf("%#x -> %v -> %#x", h, f, back)
		}
	}
	for _, f := range []float64{1.1, 65520, 1e-8, 0x1p-25, 0x1.001p0, math.SmallestNonzeroFloat64} {
		if _, ok := F16Bits(f); ok {
			t.Errorf("%v claimed exact in binary16", f)
		}
	}
}

func TestMsgpackVectors(t *testing.T) {
	wide := func(v *V, form int) *V { v.W.Form = form; return v }
	f32 := NewFloat(1.5)
	f32.W.FBits = 32
	for _, c := range []struct {
		v   *V
		hex string
	}{
		// the example of the msgpack front page
		{obj("compact", &V{K: Bool, B: true}, "schema", NewInt(0)), "82a7636f6d70616374c3a6736368656d6100"},
		{NewInt(127), "7f"}, {NewInt(128), "cc80"}, {NewInt(-32), "e0"}, {NewInt(-33), "d0df"}, {NewInt(-129), "d1ff7f"},
		{NewInt(256), "cd0100"}, {NewInt(65536), "ce00010000"}, {NewUint(1 << 32), "cf0000000100000000"},
		{NewInt(-32769), "d2ffff7fff"}, {NewInt(math.MinInt64), "d38000000000000000"},
		{wide(NewInt(1), 1), "cc01"}, {wide(NewInt(1), 4), "cf0000000000000001"}, {wide(NewInt(1), 8), "d300000000000000 01"},
		{wide(NewInt(-1), 1), "d0ff"}, {wide(NewInt(-1), 2), "d1ffff"},
		{f32, "ca3fc00000"}, {NewFloat(1.5), "cb3ff8000000000000"},
		{NewStr("abc"), "a3616263"}, {wide(NewStr("abc"), 1), "d903616263"}, {wide(NewStr("abc"), 2), "da0003616263"}, {wide(NewStr("abc"), 3), "db00000003616263"},
		{bin(1, 2), "c4020102"}, {wide(bin(1, 2), 1), "c500020102"}, {wide(bin(1, 2), 2), "c6000000020102"},
		{arr(NewInt(1)), "9101"}, {wide(arr(NewInt(1)), 1), "dc000101"}, {wide(arr(NewInt(1)), 2), "dd0000000101"},
		{wide(obj("a", NewInt(1)), 1), "de0001a16101"}, {wide(obj("a", NewInt(1)), 2), "df00000001a16101"},
		{&V{K: Ext, Tag: 5, Bin: []byte{9}}, "d40509"}, {&V{K: Ext, Tag: 5, Bin: []byte{9, 8, 7}}, "c703050908 07"},
		{wide(&V{K: Ext, Tag: 5, Bin: []byte{9, 8, 7}}, 1), "c8000305090807"}, {wide(&V{K: Ext, Tag: 5, Bin: []byte{9, 8, 7}}, 2), "c90000000305090807"},
		{&V{K: Null}, "c0"}, {&V{K: Bool}, "c2"},
	} {
		want := strings.ReplaceAll(c.hex, " ", "")
		if got := hex.EncodeToString(Msgpack(c.v, nil)); got != want {
			t.Errorf("msgpack %s: got %s want %s", c.v, got, want)
		}
	}
}

// the two examples of bsonspec.org
func TestBSONVectors(t *testing.T) {
	got := BSON(obj("hello", NewStr("world")), nil)
	want := "\x16\x00\x00\x00\x02hello\x00\x06\x00\x00\x00world\x00\x00"
	if string(got) != want {
		t.Errorf("bson hello world: %q", got)
	}
	got = BSON(obj("BSON", arr(NewStr("awesome"), NewFloat(5.05), NewInt(1986))), nil)
	want = "\x31\x00\x00\x00\x04BSON\x00\x26\x00\x00\x00\x02\x30\x00\x08\x00\x00\x00awesome\x00\x01\x31\x00\x33\x33\x33\x33\x33\x33\x14\x40\x10\x32\x00\xc2\x07\x00\x00\x00\x00"
	if string(got) != want {
		t.Errorf("bson awesome: %q", got)
	}
}

// the examples of BEP 3
func TestBencodeVectors(t *testing.T) {
	for _, c := range []struct {
		v    *V
		want string
	}{
		{NewStr("spam"), "4:spam"}, {NewInt(3), "i3e"}, {NewInt(-3), "i-3e"}, {NewInt(0), "i0e"},
		{arr(NewStr("spam"), NewStr("eggs")), "l4:spam4:eggse"},
		{obj("cow", NewStr("moo"), "spam", NewStr("eggs")), "d3:cow3:moo4:spam4:eggse"},
		{obj("spam", arr(NewStr("a"), NewStr("b"))), "d4:spaml1:a1:bee"},
		{obj("b", NewInt(1), "a", NewInt(2)), "d1:ai2e1:bi1ee"},
	} {
		if got := string(Bencode(c.v, nil)); got != c.want {
			t.Errorf("bencode %s: got %q want %q", c.v, got, c.want)
		}
	}
}

// with all hints zero the BER writer must agree with encoding/asn1 (DER)
func TestBERAgainstStdlib(t *testing.T) {
	check := func(v *V, ref any, params string) {
		t.Helper()
		want, err := asn1.MarshalWithParams(ref, params)
		if err != nil {
			t.Fatalf("asn1.Marshal(%v): %v", ref, err)
		}
		if got := BER(v, nil); !bytes.Equal(got, want) {
			t.Errorf("ber %s: got %x, encoding/asn1 %x", v, got, want)
		}
	}
	for _, i := range []int64{0, 1, -1, 127, 128, -128, -129, 255, 256, 32767, 32768, -32768, -32769, 1 << 31, -(1 << 31) - 1, math.MaxInt64, math.MinInt64} {
		check(NewInt(i), i, "")
	}
	for _, u := range []uint64{1 << 63, math.MaxUint64} {
		check(NewUint(u), new(big.Int).SetUint64(u), "")
		n := &V{K: Int, Neg: true, U: u}
		check(n, n.Big(), "")
	}
	for _, s := range []string{"", "a", "hello world", "åäö", strings.Repeat("x", 127), strings.Repeat("x", 128), strings.Repeat("x", 256), strings.Repeat("y", 70000)} {
		check(NewStr(s), s, "utf8")
	}
	pr := NewStr("Test User 1")
	pr.W.Alt = 1
	check(pr, "Test User 1", "printable")
	ia := NewStr("test1@rsa.com")
	ia.W.Alt = 2
	check(ia, "test1@rsa.com", "ia5")
	check(&V{K: Bool, B: true}, true, "")
	check(&V{K: Bool}, false, "")
	check(&V{K: Null}, asn1.NullRawValue, "")
	check(bin(1, 2, 3), []byte{1, 2, 3}, "")
	bs := bin(0x6e, 0x5d, 0xc0)
	bs.W.Alt = 1
	check(bs, asn1.BitString{Bytes: []byte{0x6e, 0x5d, 0xc0}, BitLength: 24}, "")
	check(arr(NewInt(1), NewInt(2), NewInt(300)), []int{1, 2, 300}, "")
	type inner struct {
		A int
		B string `asn1:"utf8"`
	}
	check(arr(NewInt(7), NewStr("x")), inner{7, "x"}, "")
	check(arr(arr(NewInt(7), NewStr("x")), arr(NewInt(8), NewStr(strings.Repeat("z", 200)))), []inner{{7, "x"}, {8, strings.Repeat("z", 200)}}, "")
	set := arr(NewInt(1), NewInt(2))
	set.W.Alt = 1
	check(set, []int{1, 2}, "set")
}

// X.690 8.5 by hand: 0.15625 = 5 * 2^-5; 10 = 5 * 2^1; -1.5 = -3 * 2^-1
func TestBERReal(t *testing.T) {
	for _, c := range []struct {
		f    float64
		alt  int
		want string
	}{
		{0.15625, 0, "090380fb05"}, {10, 0, "0903800105"}, {-1.5, 0, "0903c0ff03"}, {0, 0, "0900"},
		{math.Inf(1), 0, "090140"}, {math.Inf(-1), 0, "090141"}, {math.NaN(), 0, "090142"}, {math.Copysign(0, -1), 0, "090143"},
		// base 8: 10 = 5 * 2^1 * 8^0 -> F=1, E=0 ; base 16: 0.15625 = 5 * 2^3 * 16^-2 -> F=3, E=-2
		{10, 1, "0903940005"}, {0.15625, 2, "0903acfe05"},
		{1.5, 3, "090402312e35"}, {12, 3, "0903013132"},
	} {
		v := NewFloat(c.f)
		v.W.Alt = c.alt
		if got := hex.EncodeToString(BER(v, nil)); got != c.want {
			t.Errorf("ber real %v alt %d: got %s want %s", c.f, c.alt, got, c.want)
		}
	}
	// non-minimal and indefinite lengths
	s := NewStr("ab")
	s.W.Form = 2
	if got := hex.EncodeToString(BER(s, nil)); got != "0c8200026162" {
		t.Errorf("ber long form: %s", got)
	}
	a := arr(NewInt(1))
	a.W.Indef = true
	if got := hex.EncodeToString(BER(a, nil)); got != "30800201010000" {
		t.Errorf("ber indefinite: %s", got)
	}
	o := bin(1, 2, 3)
	o.W.Chunks = []int{1}
	if got := hex.EncodeToString(BER(o, nil)); got != "24070401010402 0203"[:14]+"0203" {
		t.Errorf("ber constructed octet string: %s", got)
	}
}

// random trees through the JSON writer must read back with encoding/json
func randTree(r *rand.Rand, depth int) *V {
	w := W{Form: r.Intn(8), Alt: r.Intn(8)}
	switch k := r.Intn(8); {
	case k == 0:
		return &V{K: Null}
	case k == 1:
		return &V{K: Bool, B: r.Intn(2) == 0}
	case k == 2:
		v := NewInt(r.Int63n(1<<40) - 1<<39)
		v.W = w
		return v
	case k == 3:
		v := NewFloat(math.Float64frombits(r.Uint64()))
		if math.IsInf(v.F, 0) || v.F != v.F {
			v.F = 0.25
		}
		v.W = w
		return v
	case k == 4 || depth >= 3:
		runes := []rune("ab\"\\/\n\t\x00\x1fé日😀 ")
		var sb strings.Builder
		for i := r.Intn(6); i > 0; i-- {
			sb.WriteRune(runes[r.Intn(len(runes))])
		}
		v := NewStr(sb.String())
		v.W = w
		return v
	case k == 5 || k == 6:
		v := &V{K: Arr, W: w}
		for i := r.Intn(4); i > 0; i-- {
			v.A = append(v.A, randTree(r, depth+1))
		}
		return v
	}
	v := &V{K: Map, W: w}
	for i := r.Intn(4); i > 0; i-- {
		k := NewStr(strings.Repeat("k", i) + string(rune('a'+r.Intn(3))))
		k.W.Form = r.Intn(4)
		v.M = append(v.M, KV{K: k, V: randTree(r, depth+1)})
	}
	return v
}

func plain(v *V) any {
	switch v.K {
	case Int:
		f, _ := new(big.Float).SetInt(v.Big()).Float64()
		return f
	case Arr:
		out := []any{}
		for _, a := range v.A {
			out = append(out, plain(a))
		}
		return out
	case Map:
		out := map[string]any{}
		for _, kv := range v.M {
			out[kv.K.S] = plain(kv.V)
		}
		return out
	}
	return Repr(v)
}

func TestJSONAgainstStdlib(t *testing.T) {
	r := rand.New(rand.NewSource(1))
	for i := 0; i < 3000; i++ {
		v := randTree(r, 0)
		text := JSON(v, nil)
		var got any
		if err := json.Unmarshal(text, &got); err != nil {
			t.Fatalf("%s: %q: %v", v, text, err)
		}
		want := plain(v)
		if !reflect.DeepEqual(got, want) {
			t.Fatalf("%s: %q: got %#v want %#v", v, text, got, want)
		}
	}
}

func TestCSVAgainstStdlib(t *testing.T) {
	r := rand.New(rand.NewSource(2))
	fields := []string{"", "a", "b c", " lead", "x,y", "q\"q", "line\nbreak", "#c", "é", "trail "}
	for i := 0; i < 2000; i++ {
		rows, cols := 1+r.Intn(4), 1+r.Intn(4)
		v := &V{K: Arr, W: W{Alt: r.Intn(4)}}
		var want [][]string
		for y := 0; y < rows; y++ {
			row := &V{K: Arr}
			var ws []string
			for x := 0; x < cols; x++ {
				f := NewStr(fields[r.Intn(len(fields))])
				f.W.Form = r.Intn(2)
				row.A = append(row.A, f)
				ws = append(ws, f.S)
			}
			v.A = append(v.A, row)
			want = append(want, ws)
		}
		text := CSV(v, ',', nil)
		rd := csv.NewReader(bytes.NewReader(text))
		got, err := rd.ReadAll()
		if err != nil || !reflect.DeepEqual(got, want) {
			t.Fatalf("%q: got %q (%v) want %q", text, got, err, want)
		}
	}
}
