package enc

import (
	"encoding/binary"
	"math"
)

// Msgpack encodes v following https://github.com/msgpack/msgpack/blob/master/spec.md.
// W.Form selects among all type codes that can hold the node (fixint, int8..64,
// uint8..64; fixstr/str8/16/32; bin8/16/32; fixarray/array16/32;
// fixmap/map16/32; fixext*/ext8/16/32), W.FBits 32 selects float32 when exact.
func Msgpack(v *V, f Feat) []byte {
	return mpAppend(nil, v, f)
}

func be(n int, u uint64) []byte {
	var b [8]byte
	binary.BigEndian.PutUint64(b[:], u)
	return b[8-n:]
}

func mpAppend(b []byte, v *V, f Feat) []byte {
	switch v.K {
	case Null:
		f.Add("msgpack:nil")
		return append(b, 0xc0)
	case Bool:
		f.Add("msgpack:bool")
		if v.B {
			return append(b, 0xc3)
		}
		return append(b, 0xc2)
	case Int:
		type cand struct {
			name string
			enc  func() []byte
		}
		var cs []cand
		if !v.Neg {
			u := v.U
			if u <= 0x7f {
				cs = append(cs, cand{"positive_fixint", func() []byte { return []byte{byte(u)} }})
			}
			if u <= 0xff {
				cs = append(cs, cand{"uint8", func() []byte { return []byte{0xcc, byte(u)} }})
			}
			if u <= 0xffff {
				cs = append(cs, cand{"uint16", func() []byte { return append([]byte{0xcd}, be(2, u)...) }})
			}
			if u <= 0xffffffff {
				cs = append(cs, cand{"uint32", func() []byte { return append([]byte{0xce}, be(4, u)...) }})
			}
			cs = append(cs, cand{"uint64", func() []byte { return append([]byte{0xcf}, be(8, u)...) }})
		}
		if v.FitsInt64() {
			i := v.Int64()
			if i >= -32 && i < 0 {
				cs = append(cs, cand{"negative_fixint", func() []byte { return []byte{byte(i)} }})
			}
			if i >= math.MinInt8 && i <= math.MaxInt8 {
				cs = append(cs, cand{"int8", func() []byte { return []byte{0xd0, byte(i)} }})
			}
			if i >= math.MinInt16 && i <= math.MaxInt16 {
				cs = append(cs, cand{"int16", func() []byte { return append([]byte{0xd1}, be(2, uint64(i))...) }})
			}
			if i >= math.MinInt32 && i <= math.MaxInt32 {
				cs = append(cs, cand{"int32", func() []byte { return append([]byte{0xd2}, be(4, uint64(i))...) }})
			}
			cs = append(cs, cand{"int64", func() []byte { return append([]byte{0xd3}, be(8, uint64(i))...) }})
		}
		if len(cs) == 0 {
			panic("enc: msgpack cannot hold " + v.Big().String())
		}
		c := cs[pick(v.W.Form, len(cs))]
		f.Add("msgpack:" + c.name)
		return append(b, c.enc()...)
	case Float:
		if v.W.FBits == 32 || v.W.FBits == 16 {
			if f32 := float32(v.F); float64(f32) == v.F || v.F != v.F {
				f.Add("msgpack:float32")
				return append(append(b, 0xca), be(4, uint64(math.Float32bits(f32)))...)
			}
		}
		f.Add("msgpack:float64")
		return append(append(b, 0xcb), be(8, math.Float64bits(v.F))...)
	case Str:
		n := len(v.S)
		var heads [][]byte
		var names []string
		if n <= 31 {
			heads, names = append(heads, []byte{0xa0 | byte(n)}), append(names, "fixstr")
		}
		if n <= 0xff {
			heads, names = append(heads, []byte{0xd9, byte(n)}), append(names, "str8")
		}
		if n <= 0xffff {
			heads, names = append(heads, append([]byte{0xda}, be(2, uint64(n))...)), append(names, "str16")
		}
		heads, names = append(heads, append([]byte{0xdb}, be(4, uint64(n))...)), append(names, "str32")
		i := pick(v.W.Form, len(heads))
		f.Add("msgpack:" + names[i])
		if i > 0 {
			f.Add("nonminimal-length")
		}
		return append(append(b, heads[i]...), v.S...)
	case Bytes:
		n := len(v.Bin)
		var heads [][]byte
		var names []string
		if n <= 0xff {
			heads, names = append(heads, []byte{0xc4, byte(n)}), append(names, "bin8")
		}
		if n <= 0xffff {
			heads, names = append(heads, append([]byte{0xc5}, be(2, uint64(n))...)), append(names, "bin16")
		}
		heads, names = append(heads, append([]byte{0xc6}, be(4, uint64(n))...)), append(names, "bin32")
		i := pick(v.W.Form, len(heads))
		f.Add("msgpack:" + names[i])
		if i > 0 {
			f.Add("nonminimal-length")
		}
		return append(append(b, heads[i]...), v.Bin...)
	case Ext:
		n := len(v.Bin)
		var heads [][]byte
		var names []string
		switch n {
		case 1:
			heads, names = append(heads, []byte{0xd4}), append(names, "fixext1")
		case 2:
			heads, names = append(heads, []byte{0xd5}), append(names, "fixext2")
		case 4:
			heads, names = append(heads, []byte{0xd6}), append(names, "fixext4")
		case 8:
			heads, names = append(heads, []byte{0xd7}), append(names, "fixext8")
		case 16:
			heads, names = append(heads, []byte{0xd8}), append(names, "fixext16")
		}
		if n <= 0xff {
			heads, names = append(heads, []byte{0xc7, byte(n)}), append(names, "ext8")
		}
		if n <= 0xffff {
			heads, names = append(heads, append([]byte{0xc8}, be(2, uint64(n))...)), append(names, "ext16")
		}
		heads, names = append(heads, append([]byte{0xc9}, be(4, uint64(n))...)), append(names, "ext32")
		i := pick(v.W.Form, len(heads))
		f.Add("msgpack:" + names[i])
		b = append(b, heads[i]...)
		b = append(b, byte(v.Tag))
		return append(b, v.Bin...)
	case Arr:
		n := len(v.A)
		var heads [][]byte
		var names []string
		if n <= 15 {
			heads, names = append(heads, []byte{0x90 | byte(n)}), append(names, "fixarray")
		}
		if n <= 0xffff {
			heads, names = append(heads, append([]byte{0xdc}, be(2, uint64(n))...)), append(names, "array16")
		}
		heads, names = append(heads, append([]byte{0xdd}, be(4, uint64(n))...)), append(names, "array32")
		i := pick(v.W.Form, len(heads))
		f.Add("msgpack:" + names[i])
		if i > 0 {
			f.Add("nonminimal-length")
		}
		b = append(b, heads[i]...)
		for _, a := range v.A {
			b = mpAppend(b, a, f)
		}
		return b
	case Map:
		n := len(v.M)
		var heads [][]byte
		var names []string
		if n <= 15 {
			heads, names = append(heads, []byte{0x80 | byte(n)}), append(names, "fixmap")
		}
		if n <= 0xffff {
			heads, names = append(heads, append([]byte{0xde}, be(2, uint64(n))...)), append(names, "map16")
		}
		heads, names = append(heads, append([]byte{0xdf}, be(4, uint64(n))...)), append(names, "map32")
		i := pick(v.W.Form, len(heads))
		f.Add("msgpack:" + names[i])
		if i > 0 {
			f.Add("nonminimal-length")
		}
		b = append(b, heads[i]...)
		for _, kv := range v.M {
			b = mpAppend(b, kv.K, f)
			b = mpAppend(b, kv.V, f)
		}
		return b
	}
	panic("enc: msgpack: unknown kind")
}
