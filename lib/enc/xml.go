package enc

import (
	"fmt"
	"strings"
)

// XNode is one XML element of the XML domain: the independent writer emits it
// as XML 1.0 text, XMLObject / XMLArray give the jq value that fq's xml.md
// documents for it.
type XNode struct {
	Name    string
	Attrs   []XAttr // duplicate-free names
	Text    string  // no leading/trailing white space; "" = none
	Comment string  // likewise
	Kids    []*XNode
	W       W // Form: text escaping style; Alt: bit 0 self-closing when empty, bit 1 indent children, bit 2 text as CDATA
}

type XAttr struct {
	Name, Value string
	Quote       byte // '"' or '\''
}

func (n *XNode) String() string {
	var sb strings.Builder
	n.str(&sb)
	return sb.String()
}

func (n *XNode) str(sb *strings.Builder) {
	fmt.Fprintf(sb, "<%s", n.Name)
	for _, a := range n.Attrs {
		fmt.Fprintf(sb, " %s=%q", a.Name, a.Value)
	}
	fmt.Fprintf(sb, " ~f%da%d>", n.W.Form, n.W.Alt)
	if n.Text != "" {
		fmt.Fprintf(sb, "%q", n.Text)
	}
	if n.Comment != "" {
		fmt.Fprintf(sb, "<!--%q-->", n.Comment)
	}
	for _, k := range n.Kids {
		k.str(sb)
	}
	sb.WriteString("</>")
}

func (n *XNode) Count() (nodes, maxKids int) {
	nodes = 1
	maxKids = len(n.Kids)
	for _, k := range n.Kids {
		kn, km := k.Count()
		nodes += kn
		if km > maxKids {
			maxKids = km
		}
	}
	return
}

func xmlEscape(s string, form int, attr bool, quote byte, f Feat) string {
	form = abs(form) % 3
	var sb strings.Builder
	for _, r := range s {
		switch {
		case r == '<':
			sb.WriteString([]string{"&lt;", "&#60;", "&#x3C;"}[form])
		case r == '&':
			sb.WriteString([]string{"&amp;", "&#38;", "&#x26;"}[form])
		case r == '>':
			sb.WriteString([]string{"&gt;", "&#62;", ">"}[form])
		case r == '"' && (attr && quote == '"' || form == 1):
			sb.WriteString("&quot;")
		case r == '\'' && (attr && quote == '\'' || form == 1):
			sb.WriteString("&apos;")
		case r == '\r':
			sb.WriteString("&#13;") // a literal CR would be normalised to LF by any XML parser
		case (r == '\n' || r == '\t') && attr:
			fmt.Fprintf(&sb, "&#%d;", r) // literal ones are normalised to spaces in attribute values
		case r >= 0x80 && form == 2:
			fmt.Fprintf(&sb, "&#x%X;", r)
			f.Add("xml:char-reference")
		default:
			sb.WriteRune(r)
		}
	}
	return sb.String()
}

func xmlNode(sb *strings.Builder, n *XNode, f Feat, depth int) {
	alt := abs(n.W.Alt)
	sb.WriteString("<" + n.Name)
	for i, a := range n.Attrs {
		if alt&2 != 0 && i > 0 && i%2 == 0 {
			sb.WriteString("\n" + strings.Repeat("  ", depth+2))
		} else {
			sb.WriteString(" ")
		}
		q := a.Quote
		if q != '\'' {
			q = '"'
		}
		sb.WriteString(a.Name + "=" + string(q) + xmlEscape(a.Value, n.W.Form, true, q, f) + string(q))
	}
	if n.Text == "" && n.Comment == "" && len(n.Kids) == 0 {
		if alt&1 != 0 {
			f.Add("xml:self-closing")
			sb.WriteString("/>")
		} else {
			sb.WriteString("></" + n.Name + ">")
		}
		return
	}
	sb.WriteString(">")
	if n.Text != "" {
		if alt&4 != 0 && !strings.Contains(n.Text, "]]>") && !strings.Contains(n.Text, "\r") {
			f.Add("xml:cdata")
			sb.WriteString("<![CDATA[" + n.Text + "]]>")
		} else {
			sb.WriteString(xmlEscape(n.Text, n.W.Form, false, 0, f))
		}
	}
	if n.Comment != "" {
		f.Add("xml:comment")
		sb.WriteString("<!-- " + n.Comment + " -->")
	}
	indent := alt&2 != 0
	for _, k := range n.Kids {
		if indent {
			sb.WriteString("\n" + strings.Repeat("  ", depth+1))
		}
		xmlNode(sb, k, f, depth+1)
	}
	if indent && len(n.Kids) > 0 {
		f.Add("xml:indented")
		sb.WriteString("\n" + strings.Repeat("  ", depth))
	}
	sb.WriteString("</" + n.Name + ">")
}

// XML emits the document.  prolog: bit 0 XML declaration, bit 1 a comment and a
// processing instruction before the root, bit 2 white space and a processing
// instruction after the root.
func XML(n *XNode, prolog int, f Feat) []byte {
	var sb strings.Builder
	if prolog&1 != 0 {
		sb.WriteString(`<?xml version="1.0" encoding="UTF-8"?>` + "\n")
		f.Add("xml:declaration")
	}
	if prolog&2 != 0 {
		sb.WriteString("<!-- head -->\n<?harness c16?>\n")
		f.Add("xml:misc-before-root")
	}
	xmlNode(&sb, n, f, 0)
	if prolog&4 != 0 {
		sb.WriteString("\n<?harness done?>\n")
		f.Add("xml:misc-after-root")
	} else {
		sb.WriteString("\n")
	}
	return []byte(sb.String())
}

// XMLObject is the "elements as object" value of xml.md: {name: value} with
// value "" (empty element), the text (text only), or an object with "@attr",
// "#text", "#comment" and one key per child name (an array when the name
// repeats).  seq adds "#seq" (child position) to every child of an element
// with more than one child.
func XMLObject(n *XNode, seq bool) any {
	var f func(n *XNode, seqNo int) any
	f = func(n *XNode, seqNo int) any {
		m := map[string]any{}
		for _, a := range n.Attrs {
			m["@"+a.Name] = a.Value
		}
		for i, k := range n.Kids {
			s := i
			if len(n.Kids) == 1 {
				s = -1
			}
			kv := f(k, s)
			if old, has := m[k.Name]; has {
				if arr, isArr := old.([]any); isArr {
					m[k.Name] = append(arr, kv)
				} else {
					m[k.Name] = []any{old, kv}
				}
			} else {
				m[k.Name] = kv
			}
		}
		if seq && seqNo != -1 {
			m["#seq"] = bigInt(seqNo)
		}
		if n.Text != "" {
			m["#text"] = n.Text
		}
		if n.Comment != "" {
			m["#comment"] = n.Comment
		}
		if len(m) == 0 {
			return ""
		}
		if t, has := m["#text"]; has && len(m) == 1 {
			return t
		}
		return m
	}
	return map[string]any{n.Name: f(n, -1)}
}

// XMLArray is the "elements as array" value: [name, attrs-or-null, [children]].
func XMLArray(n *XNode) any {
	m := map[string]any{}
	for _, a := range n.Attrs {
		m[a.Name] = a.Value
	}
	if n.Text != "" {
		m["#text"] = n.Text
	}
	if n.Comment != "" {
		m["#comment"] = n.Comment
	}
	kids := []any{}
	for _, k := range n.Kids {
		kids = append(kids, XMLArray(k))
	}
	var attrs any
	if len(m) > 0 {
		attrs = m
	}
	return []any{n.Name, attrs, kids}
}
