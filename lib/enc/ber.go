package enc

import (
	"math"
	"math/big"
	"strconv"
)

// BER encodes v following X.690 (BER; with all hints zero the output is DER).
//
//	Null   -> NULL (05 00)
//	Bool   -> BOOLEAN, true = ff (W.Alt odd: 01, any non-zero octet is true in BER)
//	Int    -> INTEGER, minimal two's complement (up to 9 octets for 64 bit magnitudes)
//	Float  -> REAL: zero = no contents, specials 40/41/42/43, binary form with base
//	          2 (W.Alt%4==0), 8 (1), 16 (2) or ISO 6093 decimal (3, short decimals only)
//	Str    -> UTF8String (W.Alt%4==0), PrintableString / IA5String / VisibleString
//	          when the text is in the type's alphabet
//	Bytes  -> OCTET STRING; W.Chunks: constructed from primitive segments
//	          (definite or W.Indef); W.Alt odd and no chunks: BIT STRING, 0 unused bits
//	Arr    -> SEQUENCE (W.Alt odd: SET), definite or indefinite length
//	Map    -> SEQUENCE of SEQUENCE { UTF8String key, value } (BER has no map type)
//
// W.Form selects the length form: 0 short/minimal long, k>0 long form with k-1
// more length octets than needed (well-formed BER, forbidden only in DER).
func BER(v *V, f Feat) []byte {
	return berAppend(nil, v, f)
}

// BERRepr is the value BER's data model makes of the tree: maps become arrays
// of [key, value] pairs.
func BERRepr(v *V) any {
	switch v.K {
	case Arr:
		out := make([]any, len(v.A))
		for i, a := range v.A {
			out[i] = BERRepr(a)
		}
		return out
	case Map:
		out := make([]any, len(v.M))
		for i, kv := range v.M {
			out[i] = []any{kv.K.S, BERRepr(kv.V)}
		}
		return out
	}
	return Repr(v)
}

func berLen(b []byte, n int, form int, f Feat) []byte {
	min := 0
	for x := n; x > 0; x >>= 8 {
		min++
	}
	if min == 0 {
		min = 1
	}
	if form < 0 {
		form = -form
	}
	form %= 4
	if form == 0 {
		if n < 128 {
			f.Add("ber:len-short")
			return append(b, byte(n))
		}
		f.Add("ber:len-long")
		b = append(b, 0x80|byte(min))
		return append(b, be(min, uint64(n))...)
	}
	k := min + form - 1
	if k > 8 {
		k = 8
	}
	f.Add("ber:len-long")
	if k > min || n < 128 {
		f.Add("nonminimal-length")
	}
	b = append(b, 0x80|byte(k))
	return append(b, be(k, uint64(n))...)
}

func berTLV(b []byte, tag byte, content []byte, form int, f Feat) []byte {
	b = append(b, tag)
	if len(content) == 0 && tag != 0x05 {
		f.Add("ber:zero-length")
	}
	b = berLen(b, len(content), form, f)
	return append(b, content...)
}

func berConstructed(b []byte, tag byte, content []byte, w W, f Feat) []byte {
	if w.Indef {
		f.Add("ber:indefinite")
		b = append(b, tag, 0x80)
		b = append(b, content...)
		return append(b, 0, 0)
	}
	return berTLV(b, tag, content, w.Form, f)
}

func twosComplement(x *big.Int) []byte {
	if x.Sign() >= 0 {
		b := x.Bytes()
		if len(b) == 0 || b[0]&0x80 != 0 {
			b = append([]byte{0}, b...)
		}
		return b
	}
	// -x-1 has the complemented bits
	y := new(big.Int).Neg(x)
	y.Sub(y, big.NewInt(1))
	b := y.Bytes()
	if len(b) == 0 || b[0]&0x80 != 0 {
		b = append([]byte{0}, b...)
	}
	for i := range b {
		b[i] = ^b[i]
	}
	return b
}

func isPrintable(s string) bool {
	for i := 0; i < len(s); i++ {
		c := s[i]
		switch {
		case c >= 'a' && c <= 'z', c >= 'A' && c <= 'Z', c >= '0' && c <= '9':
		case c == ' ', c == '\'', c == '(', c == ')', c == '+', c == ',', c == '-', c == '.', c == '/', c == ':', c == '=', c == '?':
		default:
			return false
		}
	}
	return true
}

func isASCII(s string, lo, hi byte) bool {
	for i := 0; i < len(s); i++ {
		if s[i] < lo || s[i] > hi {
			return false
		}
	}
	return true
}

func berReal(v *V, f Feat) []byte {
	x := v.F
	switch {
	case x != x:
		f.Add("ber:real-special")
		return []byte{0x42}
	case math.IsInf(x, 1):
		f.Add("ber:real-special")
		return []byte{0x40}
	case math.IsInf(x, -1):
		f.Add("ber:real-special")
		return []byte{0x41}
	case x == 0 && math.Signbit(x):
		f.Add("ber:real-special")
		return []byte{0x43}
	case x == 0:
		return nil
	}
	alt := v.W.Alt
	if alt < 0 {
		alt = -alt
	}
	alt %= 4
	if alt == 3 {
		// ISO 6093 decimal forms, only for numbers with a short decimal expansion
		s := strconv.FormatFloat(x, 'f', -1, 64)
		if len(s) <= 12 {
			f.Add("ber:real-decimal")
			isInt := true
			for i := 0; i < len(s); i++ {
				if s[i] == '.' {
					isInt = false
				}
			}
			switch {
			case isInt && v.W.Form%2 == 0:
				return append([]byte{0x01}, s...) // NR1
			case !isInt && v.W.Form%2 == 0:
				return append([]byte{0x02}, s...) // NR2
			default:
				return append([]byte{0x03}, strconv.FormatFloat(x, 'E', -1, 64)...) // NR3
			}
		}
		alt = 0
	}
	// x = sign * n * 2^e with n odd
	fr, e := math.Frexp(math.Abs(x))
	n := uint64(fr * (1 << 53))
	e -= 53
	for n&1 == 0 {
		n >>= 1
		e++
	}
	if e > 800 || e < -800 {
		alt = 0 // keep powers of 8/16 away from the float64 range limits
	}
	first := byte(0x80)
	if math.Signbit(x) {
		first |= 0x40
	}
	var E, F int
	switch alt {
	case 0:
		E, F = e, 0
		f.Add("ber:real-base2")
	case 1:
		E = floorDiv(e, 3)
		F = e - 3*E
		first |= 0x10
		f.Add("ber:real-base8")
	case 2:
		E = floorDiv(e, 4)
		F = e - 4*E
		first |= 0x20
		f.Add("ber:real-base16")
	}
	first |= byte(F) << 2
	expBytes := twosComplement(big.NewInt(int64(E)))
	form := v.W.Form
	if form < 0 {
		form = -form
	}
	// exponent length forms that can hold it: 1, 2, 3 octets, or length-prefixed
	var cands []int
	for _, l := range []int{1, 2, 3} {
		if len(expBytes) <= l {
			cands = append(cands, l)
		}
	}
	cands = append(cands, 0)
	l := cands[form%len(cands)]
	signExt := func(b []byte, l int) []byte {
		for len(b) < l {
			if b[0]&0x80 != 0 {
				b = append([]byte{0xff}, b...)
			} else {
				b = append([]byte{0x00}, b...)
			}
		}
		return b
	}
	var out []byte
	switch l {
	case 0:
		f.Add("ber:real-exp-lenprefixed")
		out = append(out, first|0x03, byte(len(expBytes)))
		out = append(out, expBytes...)
	default:
		out = append(out, first|byte(l-1))
		out = append(out, signExt(expBytes, l)...)
	}
	nb := new(big.Int).SetUint64(n).Bytes()
	return append(out, nb...)
}

func floorDiv(a, b int) int {
	q := a / b
	if a%b != 0 && (a < 0) != (b < 0) {
		q--
	}
	return q
}

func berAppend(b []byte, v *V, f Feat) []byte {
	alt := v.W.Alt
	if alt < 0 {
		alt = -alt
	}
	switch v.K {
	case Null:
		f.Add("ber:null")
		return append(b, 0x05, 0x00)
	case Bool:
		f.Add("ber:boolean")
		c := byte(0)
		if v.B {
			c = 0xff
			if alt%2 == 1 {
				c = 0x01
			}
		}
		return berTLV(b, 0x01, []byte{c}, v.W.Form, f)
	case Int:
		f.Add("ber:integer")
		c := twosComplement(v.Big())
		if len(c) > 8 {
			f.Add("ber:integer>8octets")
		}
		return berTLV(b, 0x02, c, v.W.Form, f)
	case Float:
		f.Add("ber:real")
		return berTLV(b, 0x09, berReal(v, f), 0, f)
	case Str:
		tag := byte(0x0c)
		switch alt % 4 {
		case 1:
			if isPrintable(v.S) {
				tag = 0x13
			}
		case 2:
			if isASCII(v.S, 0, 0x7f) {
				tag = 0x16
			}
		case 3:
			if isASCII(v.S, 0x20, 0x7e) {
				tag = 0x1a
			}
		}
		f.Add("ber:string-" + strconv.Itoa(int(tag)))
		return berTLV(b, tag, []byte(v.S), v.W.Form, f)
	case Bytes, Ext:
		if len(v.W.Chunks) > 0 {
			f.Add("ber:octet-string-constructed")
			var content []byte
			for i, c := range chunks(v.Bin, v.W.Chunks) {
				content = berTLV(content, 0x04, c, v.W.Form*(i+1), f)
			}
			return berConstructed(b, 0x24, content, v.W, f)
		}
		if alt%2 == 1 {
			f.Add("ber:bit-string")
			return berTLV(b, 0x03, append([]byte{0}, v.Bin...), v.W.Form, f)
		}
		f.Add("ber:octet-string")
		return berTLV(b, 0x04, v.Bin, v.W.Form, f)
	case Arr:
		tag := byte(0x30)
		if alt%2 == 1 {
			tag = 0x31
			f.Add("ber:set")
		} else {
			f.Add("ber:sequence")
		}
		var content []byte
		for _, a := range v.A {
			content = berAppend(content, a, f)
		}
		return berConstructed(b, tag, content, v.W, f)
	case Map:
		f.Add("ber:map-as-sequence")
		var content []byte
		for _, kv := range v.M {
			var pair []byte
			pair = berAppend(pair, kv.K, f)
			pair = berAppend(pair, kv.V, f)
			content = berTLV(content, 0x30, pair, 0, f)
		}
		return berConstructed(b, 0x30, content, v.W, f)
	}
	panic("enc: ber: unknown kind")
}
