package enc

import (
	"fmt"
	"math"
	"regexp"
	"strconv"
	"strings"
	"unicode"
	"unicode/utf8"
)

// ---------------------------------------------------------------------------
// JSON (RFC 8259)

// JSON emits v as one JSON text.
//
//	containers  W.Alt%4: 0 compact, 1 ", " and ": ", 2 newline + two-space indent, 3 tabs / CRLF mix
//	strings     W.Form%4: 0 minimal escapes, 1 every non-ASCII rune as \uXXXX (surrogate pairs),
//	            2 short escapes + "\/", 3 upper-case hex escapes
//	ints        decimal; W.Alt odd and value divisible by 10: mantissa + exponent ("12E1")
//	floats      W.Form%4: 0 shortest 'g', 1 'e', 2 'f' (all digits), 3 'E' with explicit sign
//
// Root W.Form is additionally used for whitespace around the document.
func JSON(v *V, f Feat) []byte {
	var sb strings.Builder
	switch abs(v.W.Form) % 3 {
	case 1:
		sb.WriteString(" \n")
	case 2:
		sb.WriteString("\t\r\n ")
	}
	jsonValue(&sb, v, f, 0, false)
	switch abs(v.W.Form) % 3 {
	case 1:
		sb.WriteString("\n")
	case 2:
		sb.WriteString(" \t\n\n")
	}
	return []byte(sb.String())
}

// JSONL emits the members of an Arr root one compact JSON text per line.
// Root W.Alt: bit 0 = CRLF line ends, bit 1 = no newline after the last line.
func JSONL(v *V, f Feat) []byte {
	if v.K != Arr {
		panic("enc: jsonl root must be an array")
	}
	nl := "\n"
	if abs(v.W.Alt)&1 == 1 {
		nl = "\r\n"
		f.Add("jsonl:crlf")
	}
	var sb strings.Builder
	for i, a := range v.A {
		jsonValue(&sb, a, f, 0, true)
		if i < len(v.A)-1 || abs(v.W.Alt)&2 == 0 {
			sb.WriteString(nl)
		}
	}
	return []byte(sb.String())
}

func abs(i int) int {
	if i < 0 {
		return -i
	}
	return i
}

func jsonString(sb *strings.Builder, s string, form int, f Feat) {
	form = abs(form) % 4
	hexf := "\\u%04x"
	if form == 3 {
		hexf = "\\u%04X"
	}
	sb.WriteByte('"')
	for _, r := range s {
		switch {
		case r == '"':
			sb.WriteString(`\"`)
		case r == '\\':
			sb.WriteString(`\\`)
		case r == '/' && form == 2:
			sb.WriteString(`\/`)
			f.Add("json:escape-solidus")
		case r == '\n' && form != 3:
			sb.WriteString(`\n`)
		case r == '\t' && form != 3:
			sb.WriteString(`\t`)
		case r == '\r' && form != 3:
			sb.WriteString(`\r`)
		case r == '\b' && form == 2:
			sb.WriteString(`\b`)
		case r == '\f' && form == 2:
			sb.WriteString(`\f`)
		case r < 0x20:
			fmt.Fprintf(sb, hexf, r)
			f.Add("json:escape-u")
		case r >= 0x80 && (form == 1 || form == 3):
			f.Add("json:escape-u")
			if r >= 0x10000 {
				r -= 0x10000
				fmt.Fprintf(sb, hexf, 0xd800+(r>>10))
				fmt.Fprintf(sb, hexf, 0xdc00+(r&0x3ff))
				f.Add("json:surrogate-pair")
			} else {
				fmt.Fprintf(sb, hexf, r)
			}
		default:
			sb.WriteRune(r)
		}
	}
	sb.WriteByte('"')
}

func jsonNumber(v *V, f Feat) string {
	switch v.K {
	case Int:
		s := v.Big().String()
		// a JSON number with an exponent is a float64 to every jq; only integers a
		// float64 holds exactly are written that way
		if abs(v.W.Alt)%2 == 1 && len(s) > 1 && strings.HasSuffix(s, "0") && v.U < 1<<53 {
			t := strings.TrimRight(s, "0")
			if t != "" && t != "-" {
				f.Add("json:int-with-exponent")
				return t + "E" + strconv.Itoa(len(s)-len(t))
			}
		}
		f.Add("json:int")
		return s
	case Float:
		f.Add("json:float")
		switch abs(v.W.Form) % 4 {
		case 1:
			return strconv.FormatFloat(v.F, 'e', -1, 64)
		case 2:
			// all digits; beyond 2^53 the zero-padded digits would denote another (integer) number
			if math.Abs(v.F) < 1<<53 {
				return strconv.FormatFloat(v.F, 'f', -1, 64)
			}
		case 3:
			return strconv.FormatFloat(v.F, 'E', -1, 64)
		}
		return strconv.FormatFloat(v.F, 'g', -1, 64)
	}
	panic("enc: not a number")
}

func jsonValue(sb *strings.Builder, v *V, f Feat, indent int, compact bool) {
	switch v.K {
	case Null:
		sb.WriteString("null")
	case Bool:
		if v.B {
			sb.WriteString("true")
		} else {
			sb.WriteString("false")
		}
	case Int, Float:
		sb.WriteString(jsonNumber(v, f))
	case Str:
		jsonString(sb, v.S, v.W.Form, f)
	case Arr, Map:
		style := abs(v.W.Alt) % 4
		if compact {
			style = style % 2
		}
		open, cls := "[", "]"
		n := len(v.A)
		if v.K == Map {
			open, cls = "{", "}"
			n = len(v.M)
		}
		f.Add(fmt.Sprintf("json:style%d", style))
		sep := func(i int) {
			switch style {
			case 1:
				if i > 0 {
					sb.WriteString(" ")
				}
			case 2:
				sb.WriteString("\n" + strings.Repeat("  ", indent+1))
			case 3:
				sb.WriteString("\r\n" + strings.Repeat("\t", indent+1))
			}
		}
		sb.WriteString(open)
		for i := 0; i < n; i++ {
			if i > 0 {
				sb.WriteString(",")
			}
			sep(i)
			if v.K == Map {
				jsonString(sb, v.M[i].K.S, v.M[i].K.W.Form, f)
				switch style {
				case 0:
					sb.WriteString(":")
				case 3:
					sb.WriteString(" :\t")
				default:
					sb.WriteString(": ")
				}
				jsonValue(sb, v.M[i].V, f, indent+1, compact)
			} else {
				jsonValue(sb, v.A[i], f, indent+1, compact)
			}
		}
		if n > 0 {
			switch style {
			case 2:
				sb.WriteString("\n" + strings.Repeat("  ", indent))
			case 3:
				sb.WriteString("\r\n" + strings.Repeat("\t", indent))
			}
		}
		sb.WriteString(cls)
	default:
		panic("enc: json cannot hold a " + v.K.String())
	}
}

// ---------------------------------------------------------------------------
// YAML 1.2

var yamlPlainRE = regexp.MustCompile(`^[A-Za-z_][A-Za-z0-9_]*$`)

var yamlReserved = map[string]bool{"null": true, "true": true, "false": true, "yes": true, "no": true, "on": true, "off": true, "y": true, "n": true, "nan": true, "inf": true, "nil": true}

func yamlPrintable(r rune) bool {
	switch {
	case r == 0x09, r == 0x0a, r == 0x0d, r == 0x85:
		return true
	case r >= 0x20 && r <= 0x7e:
		return true
	case r >= 0xa0 && r <= 0xd7ff:
		return true
	case r >= 0xe000 && r <= 0xfffd && r != 0xfeff:
		return true
	case r >= 0x10000 && r <= 0x10ffff:
		return true
	}
	return false
}

// yamlScalarStr emits a string scalar.  form%3: 0 double-quoted, 1 single-quoted
// when the text has only printable non-break characters, 2 plain when that is
// unambiguous; otherwise double-quoted.
func yamlScalarStr(s string, form int, f Feat) string {
	form = abs(form) % 3
	if form == 2 && yamlPlainRE.MatchString(s) && !yamlReserved[strings.ToLower(s)] {
		f.Add("yaml:plain")
		return s
	}
	if form == 1 {
		ok := true
		for _, r := range s {
			if !yamlPrintable(r) || r == '\n' || r == '\r' || r == '\t' || r == 0x85 || r == 0x2028 || r == 0x2029 {
				ok = false
				break
			}
		}
		if ok {
			f.Add("yaml:single-quoted")
			return "'" + strings.ReplaceAll(s, "'", "''") + "'"
		}
	}
	f.Add("yaml:double-quoted")
	var sb strings.Builder
	sb.WriteByte('"')
	for _, r := range s {
		switch {
		case r == '"':
			sb.WriteString(`\"`)
		case r == '\\':
			sb.WriteString(`\\`)
		case r == '\n':
			sb.WriteString(`\n`)
		case r == '\t':
			sb.WriteString(`\t`)
		case r == '\r':
			sb.WriteString(`\r`)
		case r == 0:
			sb.WriteString(`\0`)
		case r == 0x85:
			sb.WriteString(`\N`)
		case r == 0xa0 && form == 0:
			sb.WriteString(`\_`)
		case r == 0x2028:
			sb.WriteString(`\L`)
		case r == 0x2029:
			sb.WriteString(`\P`)
		case r < 0x20 || r == 0x7f || (r >= 0x80 && r < 0xa0):
			fmt.Fprintf(&sb, `\x%02x`, r)
		case !yamlPrintable(r) && r < 0x10000:
			fmt.Fprintf(&sb, `\u%04x`, r)
		case !yamlPrintable(r):
			fmt.Fprintf(&sb, `\U%08x`, r)
		case r >= 0x10000 && form == 0:
			fmt.Fprintf(&sb, `\U%08X`, r)
		default:
			sb.WriteRune(r)
		}
	}
	sb.WriteByte('"')
	return sb.String()
}

func yamlScalar(v *V, f Feat) string {
	switch v.K {
	case Null:
		if abs(v.W.Alt)%2 == 1 {
			return "~"
		}
		return "null"
	case Bool:
		if v.B {
			return "true"
		}
		return "false"
	case Int:
		if !v.Neg && abs(v.W.Alt)%3 == 1 {
			f.Add("yaml:int-hex")
			return "0x" + strconv.FormatUint(v.U, 16)
		}
		if !v.Neg && v.U <= math.MaxInt64 && abs(v.W.Alt)%3 == 2 {
			f.Add("yaml:int-octal")
			return "0o" + strconv.FormatUint(v.U, 8)
		}
		f.Add("yaml:int")
		return v.Big().String()
	case Float:
		f.Add("yaml:float")
		switch {
		case v.F != v.F:
			return ".nan"
		case math.IsInf(v.F, 1):
			if abs(v.W.Form)%2 == 1 {
				return "+.inf"
			}
			return ".inf"
		case math.IsInf(v.F, -1):
			return "-.inf"
		}
		var s string
		if abs(v.W.Form)%2 == 1 {
			s = strconv.FormatFloat(v.F, 'e', -1, 64)
		} else {
			s = strconv.FormatFloat(v.F, 'g', -1, 64)
		}
		if !strings.ContainsAny(s, ".e") {
			s += ".0"
		}
		return s
	case Str:
		return yamlScalarStr(v.S, v.W.Form, f)
	}
	panic("enc: yaml scalar of " + v.K.String())
}

func yamlFlow(sb *strings.Builder, v *V, f Feat) {
	switch v.K {
	case Arr:
		sb.WriteString("[")
		for i, a := range v.A {
			if i > 0 {
				sb.WriteString(", ")
			}
			yamlFlow(sb, a, f)
		}
		sb.WriteString("]")
	case Map:
		sb.WriteString("{")
		for i, kv := range v.M {
			if i > 0 {
				sb.WriteString(", ")
			}
			sb.WriteString(yamlScalarStr(kv.K.S, kv.K.W.Form, f))
			sb.WriteString(": ")
			yamlFlow(sb, kv.V, f)
		}
		sb.WriteString("}")
	default:
		sb.WriteString(yamlScalar(v, f))
	}
}

// yamlBlock writes v as a block node whose lines are indented by ind spaces;
// the cursor is at the start of a line.
func yamlBlock(sb *strings.Builder, v *V, f Feat, ind int) {
	pad := strings.Repeat(" ", ind)
	inline := func(c *V) bool {
		// scalars, empty containers and containers marked flow go on the same line
		switch c.K {
		case Arr:
			return len(c.A) == 0 || c.W.Indef
		case Map:
			return len(c.M) == 0 || c.W.Indef
		}
		return true
	}
	switch v.K {
	case Arr:
		for _, a := range v.A {
			sb.WriteString(pad + "-")
			if inline(a) {
				sb.WriteString(" ")
				yamlFlow(sb, a, f)
				sb.WriteString("\n")
			} else {
				sb.WriteString("\n")
				yamlBlock(sb, a, f, ind+2)
			}
		}
	case Map:
		for _, kv := range v.M {
			sb.WriteString(pad + yamlScalarStr(kv.K.S, kv.K.W.Form, f) + ":")
			if inline(kv.V) {
				sb.WriteString(" ")
				yamlFlow(sb, kv.V, f)
				sb.WriteString("\n")
			} else {
				sb.WriteString("\n")
				yamlBlock(sb, kv.V, f, ind+2)
			}
		}
	}
}

// YAML emits a container root.  Containers with W.Indef (or empty ones) use
// flow style, the others block style; root W.Alt odd adds a "---" document
// start line, root W.Form odd a comment line.
func YAML(v *V, f Feat) []byte {
	var sb strings.Builder
	if abs(v.W.Form)%2 == 1 {
		sb.WriteString("# produced by the C16 harness\n")
	}
	if abs(v.W.Alt)%2 == 1 {
		sb.WriteString("---\n")
		f.Add("yaml:document-start")
	}
	if v.W.Indef || (v.K == Arr && len(v.A) == 0) || (v.K == Map && len(v.M) == 0) {
		f.Add("yaml:flow-root")
		yamlFlow(&sb, v, f)
		sb.WriteString("\n")
	} else {
		f.Add("yaml:block-root")
		yamlBlock(&sb, v, f, 0)
	}
	return []byte(sb.String())
}

// ---------------------------------------------------------------------------
// TOML 1.0

var tomlBareRE = regexp.MustCompile(`^[A-Za-z0-9_-]+$`)

func tomlBasic(s string) string {
	var sb strings.Builder
	sb.WriteByte('"')
	for _, r := range s {
		switch {
		case r == '"':
			sb.WriteString(`\"`)
		case r == '\\':
			sb.WriteString(`\\`)
		case r == '\n':
			sb.WriteString(`\n`)
		case r == '\t':
			sb.WriteString(`\t`)
		case r == '\r':
			sb.WriteString(`\r`)
		case r == '\b':
			sb.WriteString(`\b`)
		case r == '\f':
			sb.WriteString(`\f`)
		case r < 0x20 || r == 0x7f:
			fmt.Fprintf(&sb, `\u%04X`, r)
		default:
			sb.WriteRune(r)
		}
	}
	sb.WriteByte('"')
	return sb.String()
}

func tomlLiteralOK(s string, multiline bool) bool {
	for _, r := range s {
		if r == '\'' || r == 0x7f || (r < 0x20 && r != '\t' && !(multiline && r == '\n')) {
			return false
		}
	}
	return true
}

// tomlString: form%4: 0 basic, 1 literal when possible, 2 multi-line basic,
// 3 multi-line literal when possible.
func tomlString(s string, form int, f Feat) string {
	switch abs(form) % 4 {
	case 1:
		if tomlLiteralOK(s, false) {
			f.Add("toml:literal-string")
			return "'" + s + "'"
		}
	case 2:
		// escapes as in basic strings; a newline right after the opening quotes is trimmed
		f.Add("toml:multiline-basic")
		var sb strings.Builder
		sb.WriteString(`"""` + "\n")
		for _, r := range s {
			if r == '\n' {
				sb.WriteByte('\n')
				continue
			}
			b := tomlBasic(string(r))
			sb.WriteString(b[1 : len(b)-1])
		}
		sb.WriteString(`"""`)
		return sb.String()
	case 3:
		if tomlLiteralOK(s, true) && !strings.Contains(s, "\r") {
			f.Add("toml:multiline-literal")
			return "'''\n" + s + "'''"
		}
	}
	f.Add("toml:basic-string")
	return tomlBasic(s)
}

func tomlKey(k *V, f Feat) string {
	if abs(k.W.Form)%2 == 0 && tomlBareRE.MatchString(k.S) {
		return k.S
	}
	if abs(k.W.Form)%4 == 1 && tomlLiteralOK(k.S, false) {
		return "'" + k.S + "'"
	}
	return tomlBasic(k.S)
}

func underscore(digits string) string {
	// 1_000_000 style grouping from the right
	var out []byte
	for i := 0; i < len(digits); i++ {
		if i > 0 && (len(digits)-i)%3 == 0 {
			out = append(out, '_')
		}
		out = append(out, digits[i])
	}
	return string(out)
}

func tomlScalar(v *V, f Feat) string {
	switch v.K {
	case Bool:
		if v.B {
			return "true"
		}
		return "false"
	case Int:
		if !v.FitsInt64() {
			panic("enc: toml cannot hold " + v.Big().String())
		}
		i := v.Int64()
		switch alt := abs(v.W.Alt) % 6; {
		case alt == 1 && i >= 0:
			f.Add("toml:int-hex")
			return "0x" + strconv.FormatInt(i, 16)
		case alt == 2 && i >= 0:
			f.Add("toml:int-octal")
			return "0o" + strconv.FormatInt(i, 8)
		case alt == 3 && i >= 0:
			f.Add("toml:int-binary")
			return "0b" + strconv.FormatInt(i, 2)
		case alt == 4:
			f.Add("toml:int-underscores")
			s := strconv.FormatInt(i, 10)
			if i < 0 {
				return "-" + underscore(s[1:])
			}
			return underscore(s)
		case alt == 5 && i >= 0:
			return "+" + strconv.FormatInt(i, 10)
		}
		f.Add("toml:int")
		return strconv.FormatInt(i, 10)
	case Float:
		f.Add("toml:float")
		switch {
		case v.F != v.F:
			return []string{"nan", "+nan", "-nan"}[abs(v.W.Form)%3]
		case math.IsInf(v.F, 1):
			return []string{"inf", "+inf"}[abs(v.W.Form)%2]
		case math.IsInf(v.F, -1):
			return "-inf"
		}
		var s string
		if abs(v.W.Form)%2 == 1 {
			s = strconv.FormatFloat(v.F, 'e', -1, 64)
		} else {
			s = strconv.FormatFloat(v.F, 'g', -1, 64)
		}
		if !strings.ContainsAny(s, ".e") {
			s += ".0"
		}
		return s
	case Str:
		return tomlString(v.S, v.W.Form, f)
	}
	panic("enc: toml scalar of " + v.K.String())
}

func tomlInline(sb *strings.Builder, v *V, f Feat) {
	switch v.K {
	case Arr:
		sb.WriteString("[")
		for i, a := range v.A {
			if i > 0 {
				sb.WriteString(", ")
			}
			if abs(v.W.Alt)%2 == 1 {
				sb.WriteString("\n  ")
			}
			tomlInline(sb, a, f)
		}
		if abs(v.W.Alt)%2 == 1 && len(v.A) > 0 {
			sb.WriteString(",\n") // trailing comma and newline are allowed in arrays
		}
		sb.WriteString("]")
	case Map:
		f.Add("toml:inline-table")
		sb.WriteString("{")
		for i, kv := range v.M {
			if i > 0 {
				sb.WriteString(", ")
			}
			sb.WriteString(tomlKey(kv.K, f))
			sb.WriteString(" = ")
			tomlInline(sb, kv.V, f)
		}
		sb.WriteString("}")
	default:
		sb.WriteString(tomlScalar(v, f))
	}
}

func allMaps(v *V) bool {
	if v.K != Arr || len(v.A) == 0 {
		return false
	}
	for _, a := range v.A {
		if a.K != Map {
			return false
		}
	}
	return true
}

// tomlTable writes the key/value pairs of table v (header already written):
// first everything that is written inline, then the sub-tables as sections.
func tomlTable(sb *strings.Builder, v *V, f Feat, path string) {
	section := func(c *V) bool {
		// maps without the flow hint become [sections], arrays of maps [[sections]]
		return (c.K == Map && !c.W.Indef) || (allMaps(c) && !c.W.Indef)
	}
	for _, kv := range v.M {
		if section(kv.V) {
			continue
		}
		sb.WriteString(tomlKey(kv.K, f))
		sb.WriteString(" = ")
		tomlInline(sb, kv.V, f)
		sb.WriteString("\n")
	}
	for _, kv := range v.M {
		if !section(kv.V) {
			continue
		}
		p := tomlKey(kv.K, f)
		if path != "" {
			p = path + "." + p
		}
		if kv.V.K == Map {
			f.Add("toml:table-section")
			sb.WriteString("\n[" + p + "]\n")
			tomlTable(sb, kv.V, f, p)
		} else {
			f.Add("toml:array-of-tables")
			for _, a := range kv.V.A {
				sb.WriteString("\n[[" + p + "]]\n")
				tomlTable(sb, a, f, p)
			}
		}
	}
}

// TOML emits a Map root.  Map values with W.Indef are inline tables, the others
// [sections]; arrays whose members are all maps become [[arrays of tables]]
// unless W.Indef.
func TOML(v *V, f Feat) []byte {
	if v.K != Map {
		panic("enc: toml root must be a map")
	}
	var sb strings.Builder
	if abs(v.W.Form)%2 == 1 {
		sb.WriteString("# produced by the C16 harness\n")
	}
	tomlTable(&sb, v, f, "")
	return []byte(sb.String())
}

// ---------------------------------------------------------------------------
// CSV (RFC 4180 with the dialect options fq documents: comma, '#' comments)

// CSV emits an Arr of Arr of Str.  Per field W.Form odd: always quoted.  Root
// W.Alt: bit 0 = CRLF records, bit 1 = no line end after the last record.
func CSV(v *V, comma rune, f Feat) []byte {
	nl := "\n"
	if abs(v.W.Alt)&1 == 1 {
		nl = "\r\n"
		f.Add("csv:crlf")
	}
	var sb strings.Builder
	for i, row := range v.A {
		for j, fld := range row.A {
			if j > 0 {
				sb.WriteRune(comma)
			}
			s := fld.S
			need := abs(fld.W.Form)%2 == 1 || s == "" && len(row.A) == 1 ||
				strings.ContainsAny(s, "\"\r\n") || strings.ContainsRune(s, comma) ||
				(j == 0 && strings.HasPrefix(s, "#"))
			if r, _ := utf8.DecodeRuneInString(s); s != "" && unicode.IsSpace(r) {
				need = true // readers that trim leading space keep it only inside quotes
			}
			if need {
				f.Add("csv:quoted")
				sb.WriteString(`"` + strings.ReplaceAll(s, `"`, `""`) + `"`)
			} else {
				f.Add("csv:bare")
				sb.WriteString(s)
			}
		}
		if i < len(v.A)-1 || abs(v.W.Alt)&2 == 0 {
			sb.WriteString(nl)
		}
	}
	return []byte(sb.String())
}
