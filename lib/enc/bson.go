package enc

import (
	"encoding/binary"
	"math"
	"strconv"
)

// BSON encodes a Map root following https://bsonspec.org/spec.html (version
// 1.1): document = int32 size, elements, 0x00; element = type, cstring name,
// value.  Int nodes become int32 (0x10) when they fit and W.Form is even,
// otherwise int64 (0x12); Bytes become binary (0x05) with subtype 0x00
// (W.Alt odd: 0x80 user defined); arrays are documents keyed "0","1",...
func BSON(v *V, f Feat) []byte {
	if v.K != Map {
		panic("enc: bson root must be a map")
	}
	return bsonDoc(nil, v, f)
}

func le32(u uint32) []byte {
	var b [4]byte
	binary.LittleEndian.PutUint32(b[:], u)
	return b[:]
}

func le64(u uint64) []byte {
	var b [8]byte
	binary.LittleEndian.PutUint64(b[:], u)
	return b[:]
}

func bsonDoc(b []byte, v *V, f Feat) []byte {
	start := len(b)
	b = append(b, 0, 0, 0, 0)
	switch v.K {
	case Map:
		for _, kv := range v.M {
			b = bsonElem(b, kv.K.S, kv.V, f)
		}
	case Arr:
		for i, a := range v.A {
			b = bsonElem(b, strconv.Itoa(i), a, f)
		}
	}
	b = append(b, 0)
	binary.LittleEndian.PutUint32(b[start:], uint32(len(b)-start))
	return b
}

func bsonElem(b []byte, name string, v *V, f Feat) []byte {
	head := func(t byte) {
		b = append(b, t)
		b = append(b, name...)
		b = append(b, 0)
	}
	switch v.K {
	case Null:
		f.Add("bson:null")
		head(0x0a)
	case Bool:
		f.Add("bson:bool")
		head(0x08)
		if v.B {
			b = append(b, 1)
		} else {
			b = append(b, 0)
		}
	case Int:
		if !v.FitsInt64() {
			panic("enc: bson cannot hold " + v.Big().String())
		}
		i := v.Int64()
		if i >= math.MinInt32 && i <= math.MaxInt32 && v.W.Form%2 == 0 {
			f.Add("bson:int32")
			head(0x10)
			b = append(b, le32(uint32(int32(i)))...)
		} else {
			f.Add("bson:int64")
			head(0x12)
			b = append(b, le64(uint64(i))...)
		}
	case Float:
		f.Add("bson:double")
		head(0x01)
		b = append(b, le64(math.Float64bits(v.F))...)
	case Str:
		f.Add("bson:string")
		head(0x02)
		b = append(b, le32(uint32(len(v.S)+1))...)
		b = append(b, v.S...)
		b = append(b, 0)
	case Bytes, Ext:
		f.Add("bson:binary")
		head(0x05)
		b = append(b, le32(uint32(len(v.Bin)))...)
		if v.W.Alt%2 == 1 {
			b = append(b, 0x80)
		} else {
			b = append(b, 0x00)
		}
		b = append(b, v.Bin...)
	case Map:
		f.Add("bson:document")
		head(0x03)
		b = bsonDoc(b, v, f)
	case Arr:
		f.Add("bson:array")
		head(0x04)
		b = bsonDoc(b, v, f)
	}
	return b
}

// Bencode encodes v (ints that fit int64, strings, byte strings, lists,
// dictionaries) as specified in BEP 3.  W.Alt odd on a Map keeps insertion
// order instead of the sorted key order the specification asks writers for.
func Bencode(v *V, f Feat) []byte {
	return benAppend(nil, v, f)
}

func benAppend(b []byte, v *V, f Feat) []byte {
	switch v.K {
	case Int:
		if !v.FitsInt64() {
			panic("enc: bencode cannot hold " + v.Big().String())
		}
		f.Add("bencode:integer")
		b = append(b, 'i')
		b = strconv.AppendInt(b, v.Int64(), 10)
		return append(b, 'e')
	case Str:
		f.Add("bencode:string")
		b = strconv.AppendInt(b, int64(len(v.S)), 10)
		b = append(b, ':')
		return append(b, v.S...)
	case Bytes, Ext:
		f.Add("bencode:bytes")
		b = strconv.AppendInt(b, int64(len(v.Bin)), 10)
		b = append(b, ':')
		return append(b, v.Bin...)
	case Arr:
		f.Add("bencode:list")
		b = append(b, 'l')
		for _, a := range v.A {
			b = benAppend(b, a, f)
		}
		return append(b, 'e')
	case Map:
		f.Add("bencode:dictionary")
		b = append(b, 'd')
		kvs := v.M
		if v.W.Alt%2 == 0 {
			kvs = append([]KV(nil), v.M...)
			// insertion sort by raw key bytes
			for i := 1; i < len(kvs); i++ {
				for j := i; j > 0 && kvs[j].K.S < kvs[j-1].K.S; j-- {
					kvs[j], kvs[j-1] = kvs[j-1], kvs[j]
				}
			}
		} else if len(kvs) > 1 {
			f.Add("bencode:unsorted-keys")
		}
		for _, kv := range kvs {
			b = benAppend(b, kv.K, f)
			b = benAppend(b, kv.V, f)
		}
		return append(b, 'e')
	}
	panic("enc: bencode cannot hold a " + v.K.String())
}
