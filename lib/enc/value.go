// Package enc holds the independent wire encoders of check C16: a JSON-like
// value tree whose nodes carry wire-variant hints, one hand-written encoder per
// serialization format fq decodes, and for every format the value that format's
// data model makes of the tree (the expected torepr / tovalue result).
//
// Nothing in here imports fq.  The encoders follow the format specifications
// (msgpack spec.md, RFC 8949, bsonspec.org, the BitTorrent bencoding rules,
// X.690, RFC 8259, YAML 1.2, TOML 1.0, XML 1.0, RFC 4180); enc_test.go pins them
// to published test vectors and to the Go standard library where it has an
// encoder for the format.
package enc

import (
	"fmt"
	"math"
	"math/big"
	"strconv"
	"strings"
	"unicode/utf8"
)

type Kind uint8

const (
	Null Kind = iota
	Bool
	Int
	Float
	Str
	Bytes
	Arr
	Map
	Ext // msgpack extension: type byte + payload, represented by its payload bytes
)

var kindNames = [...]string{"null", "bool", "int", "float", "str", "bytes", "arr", "map", "ext"}

func (k Kind) String() string { return kindNames[k] }

// W are the wire-variant hints of one node.  Every encoder interprets them
// modulo the variants that exist for the node in that format, so any hint is
// valid for any value.
type W struct {
	Form   int   // which of the applicable width / length forms (0 = the smallest)
	Indef  bool  // indefinite length where the format has one (cbor, ber constructed)
	Chunks []int // chunk sizes for chunked strings / byte strings (cbor indefinite, ber constructed)
	FBits  int   // requested float width 16/32/64; used only if the value is exactly representable
	Alt    int   // format specific alternative (see the encoders)
}

// V is one node of the value tree.
type V struct {
	K   Kind
	B   bool
	Neg bool   // Int: value = U if !Neg, -1-U if Neg  (covers -2^64 .. 2^64-1)
	U   uint64 // Int magnitude, see Neg
	F   float64
	S   string // Str (valid UTF-8)
	Bin []byte // Bytes, Ext payload
	Tag int8   // Ext type
	A   []*V
	M   []KV // ordered, duplicate-free keys
	W   W
}

type KV struct {
	K *V // always a Str node (carries its own wire hints)
	V *V
}

// Raw is the expected representation of a byte string: a jq string carrying
// these bytes (exactly, or with invalid UTF-8 replaced by U+FFFD).
type Raw []byte

func NewInt(i int64) *V {
	if i < 0 {
		return &V{K: Int, Neg: true, U: uint64(-(i + 1))}
	}
	return &V{K: Int, U: uint64(i)}
}
func NewUint(u uint64) *V   { return &V{K: Int, U: u} }
func NewStr(s string) *V    { return &V{K: Str, S: s} }
func NewFloat(f float64) *V { return &V{K: Float, F: f} }

// Big returns the integer value of an Int node.
func (v *V) Big() *big.Int {
	b := new(big.Int).SetUint64(v.U)
	if v.Neg {
		b.Neg(b)
		b.Sub(b, big.NewInt(1))
	}
	return b
}

// FitsInt64 / FitsUint64 report the integer range of an Int node.
func (v *V) FitsInt64() bool {
	return v.U <= math.MaxInt64
}
func (v *V) FitsUint64() bool { return !v.Neg }

// Int64 returns the value of an Int node that FitsInt64.
func (v *V) Int64() int64 {
	if v.Neg {
		return -1 - int64(v.U)
	}
	return int64(v.U)
}

// BitsNeeded is the number of magnitude bits of an Int node.
func (v *V) BitsNeeded() int {
	n := 0
	for u := v.U; u != 0; u >>= 1 {
		n++
	}
	return n
}

// Walk visits every node (map keys included) in document order.
func (v *V) Walk(fn func(n *V, depth int)) { v.walk(fn, 0) }

func (v *V) walk(fn func(n *V, depth int), d int) {
	fn(v, d)
	for _, a := range v.A {
		a.walk(fn, d+1)
	}
	for _, kv := range v.M {
		kv.K.walk(fn, d+1)
		kv.V.walk(fn, d+1)
	}
}

func (v *V) Depth() int {
	m := 0
	v.Walk(func(_ *V, d int) {
		if d > m {
			m = d
		}
	})
	return m
}

// MaxMembers is the largest member count of any container in the tree.
func (v *V) MaxMembers() int {
	m := 0
	v.Walk(func(n *V, _ int) {
		if len(n.A) > m {
			m = len(n.A)
		}
		if len(n.M) > m {
			m = len(n.M)
		}
	})
	return m
}

// String is the replayable description of the tree including the wire hints.
func (v *V) String() string {
	var sb strings.Builder
	v.str(&sb)
	return sb.String()
}

func (w W) str(sb *strings.Builder) {
	if w.Form == 0 && !w.Indef && len(w.Chunks) == 0 && w.FBits == 0 && w.Alt == 0 {
		return
	}
	sb.WriteString("~")
	if w.Form != 0 {
		fmt.Fprintf(sb, "f%d", w.Form)
	}
	if w.Indef {
		sb.WriteString("i")
	}
	if w.FBits != 0 {
		fmt.Fprintf(sb, "w%d", w.FBits)
	}
	if w.Alt != 0 {
		fmt.Fprintf(sb, "a%d", w.Alt)
	}
	if len(w.Chunks) > 0 {
		fmt.Fprintf(sb, "c%v", w.Chunks)
	}
}

func (v *V) str(sb *strings.Builder) {
	switch v.K {
	case Null:
		sb.WriteString("null")
	case Bool:
		fmt.Fprintf(sb, "%v", v.B)
	case Int:
		sb.WriteString(v.Big().String())
	case Float:
		fmt.Fprintf(sb, "float(%s/%#x)", strconv.FormatFloat(v.F, 'g', -1, 64), math.Float64bits(v.F))
	case Str:
		if len(v.S) > 80 {
			fmt.Fprintf(sb, "str(len %d, %q...)", len(v.S), v.S[:cutRune(v.S, 40)])
		} else {
			fmt.Fprintf(sb, "%q", v.S)
		}
	case Bytes:
		if len(v.Bin) > 40 {
			fmt.Fprintf(sb, "bytes(len %d, %x...)", len(v.Bin), v.Bin[:20])
		} else {
			fmt.Fprintf(sb, "bytes(%x)", v.Bin)
		}
	case Ext:
		fmt.Fprintf(sb, "ext(%d,%x)", v.Tag, v.Bin)
	case Arr:
		sb.WriteString("[")
		for i, a := range v.A {
			if i > 0 {
				sb.WriteString(",")
			}
			if i >= 40 {
				fmt.Fprintf(sb, "...%d more", len(v.A)-i)
				break
			}
			a.str(sb)
		}
		sb.WriteString("]")
	case Map:
		sb.WriteString("{")
		for i, kv := range v.M {
			if i > 0 {
				sb.WriteString(",")
			}
			if i >= 40 {
				fmt.Fprintf(sb, "...%d more", len(v.M)-i)
				break
			}
			kv.K.str(sb)
			sb.WriteString(":")
			kv.V.str(sb)
		}
		sb.WriteString("}")
	}
	v.W.str(sb)
}

// CutRune returns the largest rune boundary of s that is <= n.
func CutRune(s string, n int) int { return cutRune(s, n) }

func cutRune(s string, n int) int {
	for n > 0 && !utf8.RuneStart(s[n]) {
		n--
	}
	return n
}

// Feat collects which wire features an encoding used (label -> count).
type Feat map[string]int

func (f Feat) Add(l string) {
	if f != nil {
		f[l]++
	}
}

func (f Feat) Has(l string) bool { return f != nil && f[l] > 0 }

// Repr is the plain JSON-like value of the tree: ints as *big.Int, floats as
// float64, byte strings and ext payloads as Raw, maps as map[string]any.
func Repr(v *V) any {
	switch v.K {
	case Null:
		return nil
	case Bool:
		return v.B
	case Int:
		return v.Big()
	case Float:
		return v.F
	case Str:
		return v.S
	case Bytes, Ext:
		return Raw(v.Bin)
	case Arr:
		out := make([]any, len(v.A))
		for i, a := range v.A {
			out[i] = Repr(a)
		}
		return out
	case Map:
		out := make(map[string]any, len(v.M))
		for _, kv := range v.M {
			out[kv.K.S] = Repr(kv.V)
		}
		return out
	}
	panic("enc: unknown kind")
}

// pick returns cands[form mod len(cands)].
func pick(form int, n int) int {
	if n <= 0 {
		panic("enc: no candidate")
	}
	if form < 0 {
		form = -form
	}
	return form % n
}

// chunks splits b according to the requested chunk sizes; the last chunk takes
// the rest.  Sizes <= 0 make empty chunks.  No sizes: one chunk if b is not
// empty, none otherwise.
func chunks(b []byte, sizes []int) [][]byte {
	var out [][]byte
	for _, s := range sizes {
		if s < 0 {
			s = 0
		}
		if s > len(b) {
			s = len(b)
		}
		out = append(out, b[:s])
		b = b[s:]
	}
	if len(b) > 0 {
		out = append(out, b)
	}
	return out
}

// chunksStr is chunks for text: chunk borders are moved back to rune starts so
// that every chunk is valid UTF-8 on its own (RFC 8949 3.2.3 requires it).
func chunksStr(s string, sizes []int) []string {
	var out []string
	for _, n := range sizes {
		if n < 0 {
			n = 0
		}
		if n > len(s) {
			n = len(s)
		}
		for n > 0 && n < len(s) && !utf8.RuneStart(s[n]) {
			n--
		}
		out = append(out, s[:n])
		s = s[n:]
	}
	if len(s) > 0 {
		out = append(out, s)
	}
	return out
}

func bigInt(i int) *big.Int { return big.NewInt(int64(i)) }
