// Package harness is the shared runtime of every property check: it counts
// cases, keeps the set of distinct non-trivial case hashes, label
// distributions and samples, matches oracle failures against the committed
// known-findings file, persists violations as replay files and writes one
// evidence fragment per shard process.  The driver (cmd/vcheck) merges the
// fragments.
package harness

import (
	"crypto/sha256"
	"encoding/binary"
	"encoding/hex"
	"encoding/json"
	"flag"
	"fmt"
	"hash/fnv"
	"os"
	"path/filepath"
	"runtime/debug"
	"sort"
	"strconv"
	"strings"
	"sync"
	"testing"
	"time"

	"pgregory.net/rapid"
)

// Env is the per-process configuration handed over by the driver.
type Env struct {
	Property string
	Tier     string // quick | thorough
	Seed     uint64 // VERIF_SEED
	Shard    int
	NShards  int
	Root     string // /verif
	FragPath string // where to write the evidence fragment
	Replay   string // non-empty: replay this file instead of searching
}

var E Env

// Violation is one oracle failure that is not a listed known finding.
type Violation struct {
	Property  string `json:"property"`
	Test      string `json:"test"`
	Signature string `json:"signature"`
	Message   string `json:"message"`
	Case      any    `json:"case,omitempty"`
	RapidFail string `json:"rapid_failfile,omitempty"` // filled in by the driver
	RapidSeed uint64 `json:"rapid_seed,omitempty"`
	Tier      string `json:"tier,omitempty"`
	Seed      uint64 `json:"verif_seed,omitempty"`
	Shard     int    `json:"shard"`
	NShards   int    `json:"nshards,omitempty"`
	Path      string `json:"-"`
}

type Fragment struct {
	Property      string           `json:"property"`
	Shard         int              `json:"shard"`
	Evaluations   int64            `json:"evaluations"`
	NonTrivial    int64            `json:"nontrivial_evaluations"`
	NTHashes      []uint64         `json:"nt_hashes"`
	NTHashOverrun bool             `json:"nt_hash_overrun"`
	Labels        map[string]int64 `json:"labels"`
	Samples       []any            `json:"samples"`
	ExcludedKnown map[string]int64 `json:"excluded_known"`
	Violations    []Violation      `json:"violations"`
	Extra         map[string]any   `json:"extra"`
	ExtraSum      map[string]int64 `json:"extra_sum"`
	Tests         map[string]int64 `json:"tests"`
	Completed     bool             `json:"completed"`
	ExitCode      int              `json:"exit_code"`
	WallS         float64          `json:"wall_s"`
}

type recorder struct {
	mu       sync.Mutex
	frag     Fragment
	nt       map[uint64]struct{}
	known    []KnownEntry
	sampleN  map[string]int
	violSigs map[string]int
}

const maxNTHashes = 6_000_000

var R = &recorder{
	nt:       map[uint64]struct{}{},
	sampleN:  map[string]int{},
	violSigs: map[string]int{},
	frag: Fragment{
		Labels:        map[string]int64{},
		ExcludedKnown: map[string]int64{},
		Extra:         map[string]any{},
		ExtraSum:      map[string]int64{},
		Tests:         map[string]int64{},
	},
}

// Main is called from TestMain of every property package.
func Main(m *testing.M, property string) {
	E.Property = property
	E.Tier = getenv("VERIF_TIER", "quick")
	E.Seed = uint64(atoi(getenv("VERIF_SEED", "1"), 1))
	E.Shard = atoi(getenv("VERIF_SHARD", "0"), 0)
	E.NShards = atoi(getenv("VERIF_NSHARDS", "1"), 1)
	E.Root = getenv("VERIF_ROOT", "/verif")
	E.FragPath = os.Getenv("VERIF_FRAG")
	E.Replay = os.Getenv("VERIF_REPLAY")
	R.frag.Property = property
	R.frag.Shard = E.Shard
	R.known = LoadKnownAll(E.Root, property)
	debug.SetMaxStack(512 << 20)
	if d := os.Getenv("VERIF_DONE"); d != "" {
		_ = json.Unmarshal([]byte(d), &doneBefore)
	}
	attempt = uint64(atoi(getenv("VERIF_ATTEMPT", "0"), 0))
	go func() {
		for {
			time.Sleep(time.Second)
			R.flush()
		}
	}()
	start := time.Now()
	flag.Parse()
	code := m.Run()
	R.frag.WallS = time.Since(start).Seconds()
	R.frag.Completed = true
	R.frag.ExitCode = code
	R.flush()
	os.Exit(code)
}

// progress of earlier attempts of this shard (the process died and was
// restarted by the driver): cases already started per test
var doneBefore = map[string]int64{}
var attempt uint64

// EnumResume returns the index at which an enumerated test resumes after a
// process death (0 on the first attempt); indexes count cases handed to
// EnumAt in this shard.
func EnumResume(name string) int64 { return doneBefore[name] }

// EnumAt records that the name's n-th case (1-based count of cases started in
// this shard, including earlier attempts) is about to run.
func EnumAt(name string, n int64) {
	R.mu.Lock()
	R.frag.Tests[name] = n - doneBefore[name]
	R.mu.Unlock()
}

func getenv(k, d string) string {
	if v := os.Getenv(k); v != "" {
		return v
	}
	return d
}

func atoi(s string, d int) int {
	n, err := strconv.ParseInt(s, 10, 64)
	if err != nil {
		return d
	}
	return int(n)
}

func Thorough() bool { return E.Tier == "thorough" }

// N picks a case count by tier.
func N(quick, thorough int) int {
	if Thorough() {
		return thorough
	}
	return quick
}

// Mine reports whether item i of an enumerated family belongs to this shard.
func Mine(i int) bool {
	if E.NShards <= 1 {
		return true
	}
	return i%E.NShards == E.Shard
}

func splitmix(x uint64) uint64 {
	x += 0x9e3779b97f4a7c15
	x = (x ^ (x >> 30)) * 0xbf58476d1ce4e5b9
	x = (x ^ (x >> 27)) * 0x94d049bb133111eb
	return x ^ (x >> 31)
}

// SeedFor derives the deterministic PRNG seed of a named test in this shard.
func SeedFor(name string) uint64 {
	h := fnv.New64a()
	h.Write([]byte(E.Property))
	h.Write([]byte{0})
	h.Write([]byte(name))
	s := splitmix(E.Seed ^ splitmix(h.Sum64()^uint64(E.Shard)*0x100000001b3) ^ attempt*0x2545f4914f6cdd1d)
	s |= 1
	// rapid parses the seed flag as uint64; keep it below 2^63 so that it
	// prints and parses the same everywhere
	return s >> 1 | 1
}

// Hash64 hashes any JSON-able value (canonical by encoding/json: map keys sorted).
func Hash64(v any) uint64 {
	b, err := json.Marshal(v)
	if err != nil {
		b = []byte(fmt.Sprintf("%#v", v))
	}
	return HashBytes(b)
}

func HashBytes(b []byte) uint64 {
	h := fnv.New64a()
	h.Write(b)
	return h.Sum64()
}

func HashInts(xs ...uint64) uint64 {
	var h uint64 = 0xcbf29ce484222325
	for _, x := range xs {
		h = splitmix(h ^ x)
	}
	return h
}

// Count records one executed case.
func Count(hash uint64, nontrivial bool, labels ...string) {
	R.mu.Lock()
	R.frag.Evaluations++
	if nontrivial {
		R.frag.NonTrivial++
		if len(R.nt) < maxNTHashes {
			R.nt[hash] = struct{}{}
		} else if _, ok := R.nt[hash]; !ok {
			R.frag.NTHashOverrun = true
		}
	}
	for _, l := range labels {
		R.frag.Labels[l]++
	}
	R.mu.Unlock()
}

func Label(l string, n int64) {
	R.mu.Lock()
	R.frag.Labels[l] += n
	R.mu.Unlock()
}

// Describe records the generation / non-triviality rule and the assumptions of
// the check; they end up in the evidence file.
func Describe(rule string, assumptions ...string) {
	R.mu.Lock()
	R.frag.Extra["rule"] = rule
	R.frag.Extra["assumptions"] = assumptions
	R.mu.Unlock()
}

// LoadReplayCase returns the "case" member of the replay file, if replaying.
func LoadReplayCase() (test string, c json.RawMessage, ok bool) {
	if E.Replay == "" {
		return "", nil, false
	}
	b, err := os.ReadFile(E.Replay)
	if err != nil {
		return "", nil, false
	}
	var v struct {
		Test string          `json:"test"`
		Case json.RawMessage `json:"case"`
	}
	if json.Unmarshal(b, &v) != nil {
		return "", nil, false
	}
	return v.Test, v.Case, true
}

// Extra stores a named measured quantity in the evidence.
func Extra(k string, v any) {
	R.mu.Lock()
	R.frag.Extra[k] = v
	R.mu.Unlock()
}

func ExtraAdd(k string, n int64) {
	R.mu.Lock()
	R.frag.ExtraSum[k] += n
	R.mu.Unlock()
}

// Sample keeps up to perKind samples of the given kind.
func Sample(kind string, perKind int, v any) {
	R.mu.Lock()
	defer R.mu.Unlock()
	if R.sampleN[kind] >= perKind {
		return
	}
	R.sampleN[kind]++
	R.frag.Samples = append(R.frag.Samples, map[string]any{"kind": kind, "case": v})
}

func WantSample(kind string, perKind int) bool {
	R.mu.Lock()
	defer R.mu.Unlock()
	return R.sampleN[kind] < perKind
}

// Known reports whether sig is a listed known finding; if so it is counted.
func Known(sig string) bool {
	for _, k := range R.known {
		if k.Kind == "known" && k.Matches(sig) {
			R.mu.Lock()
			R.frag.ExcludedKnown[k.Sig]++
			R.mu.Unlock()
			return true
		}
	}
	return false
}

// Violate persists a violation (unless sig is a known finding, in which case
// it returns false).  At most 3 replay files are kept per signature.
func Violate(test, sig, msg string, c any) bool {
	if Known(sig) {
		return false
	}
	R.mu.Lock()
	defer R.mu.Unlock()
	R.violSigs[sig]++
	if R.violSigs[sig] > 3 || len(R.frag.Violations) >= 40 {
		return true
	}
	v := Violation{Property: E.Property, Test: test, Signature: sig, Message: trunc(msg, 4000), Case: c}
	v.Path = writeReplay(v)
	R.frag.Violations = append(R.frag.Violations, v)
	R.flushLocked()
	return true
}

func trunc(s string, n int) string {
	if len(s) > n {
		return s[:n] + "…"
	}
	return s
}

type replayFile struct {
	Violation
	PathOut string `json:"path"`
}

func writeReplay(v Violation) string {
	v.Tier, v.Seed, v.Shard, v.NShards = E.Tier, E.Seed, E.Shard, E.NShards
	if os.Getenv("VERIF_NOWRITE_REPLAY") != "" {
		return E.Replay
	}
	dir := filepath.Join(E.Root, "replays", E.Property)
	_ = os.MkdirAll(dir, 0o755)
	b, _ := json.MarshalIndent(v, "", " ")
	sum := sha256.Sum256(b)
	p := filepath.Join(dir, fmt.Sprintf("%s-%s.json", sanitize(v.Test), hex.EncodeToString(sum[:6])))
	_ = os.WriteFile(p, b, 0o644)
	return p
}

func sanitize(s string) string {
	var sb strings.Builder
	for _, r := range s {
		if r >= 'a' && r <= 'z' || r >= 'A' && r <= 'Z' || r >= '0' && r <= '9' || r == '_' || r == '-' {
			sb.WriteRune(r)
		} else {
			sb.WriteByte('_')
		}
	}
	return sb.String()
}

func (r *recorder) flush() {
	r.mu.Lock()
	defer r.mu.Unlock()
	r.flushLocked()
}

func (r *recorder) flushLocked() {
	if E.FragPath == "" {
		return
	}
	f := r.frag
	f.NTHashes = make([]uint64, 0, len(r.nt))
	for h := range r.nt {
		f.NTHashes = append(f.NTHashes, h)
	}
	sort.Slice(f.NTHashes, func(i, j int) bool { return f.NTHashes[i] < f.NTHashes[j] })
	type fragOut struct {
		Fragment
		NTHashesB string      `json:"nt_hashes_b"`
		NTHashes  interface{} `json:"nt_hashes,omitempty"`
		VPaths    []string    `json:"violation_paths"`
	}
	buf := make([]byte, 8*len(f.NTHashes))
	for i, h := range f.NTHashes {
		binary.LittleEndian.PutUint64(buf[i*8:], h)
	}
	out := fragOut{Fragment: f, NTHashesB: hex.EncodeToString(buf)}
	out.Fragment.NTHashes = nil
	for _, v := range f.Violations {
		out.VPaths = append(out.VPaths, v.Path)
	}
	b, err := json.Marshal(out)
	if err != nil {
		b = []byte(fmt.Sprintf(`{"property":%q,"error":%q}`, f.Property, err.Error()))
	}
	tmp := E.FragPath + ".tmp"
	_ = os.WriteFile(tmp, b, 0o644)
	_ = os.Rename(tmp, E.FragPath)
}

// ---------------------------------------------------------------------------
// rapid wrapper

// Case is the serialisable description of one generated case, built up by the
// property while it draws.
type Case struct {
	t       *testing.T
	rt      *rapid.T
	Data    map[string]any
	Steps   []string
	labels  []string
	nt      bool
	failed  bool
	noCount bool
}

func (c *Case) Set(k string, v any)                   { c.Data[k] = v }
func (c *Case) Stepf(format string, a ...any)          { c.Steps = append(c.Steps, fmt.Sprintf(format, a...)) }
func (c *Case) Label(l string)                         { c.labels = append(c.labels, l) }
func (c *Case) NonTrivial()                            { c.nt = true }
func (c *Case) SetNonTrivial(b bool)                   { c.nt = b }
func (c *Case) JSON() any                              { return map[string]any{"data": c.Data, "steps": c.Steps} }
func (c *Case) HasLabel(l string) bool {
	for _, x := range c.labels {
		if x == l {
			return true
		}
	}
	return false
}

type lastFail struct {
	sig, msg string
	c        any
	set      bool
}

// Failf reports an oracle failure for the current case.  A listed known
// finding is counted and the case is abandoned without failing (so the search
// continues behind it); anything else fails the rapid property, which then
// shrinks.  It does not return in either case.
func (c *Case) Failf(sig, format string, a ...any) {
	if Known(sig) {
		c.noCount = true
		panic(abandon{})
	}
	msg := fmt.Sprintf(format, a...)
	c.failed = true
	if c.t != nil {
		cur := curLast[c.t.Name()]
		cur.sig, cur.msg, cur.c, cur.set = sig, msg, c.JSON(), true
	}
	c.rt.Fatalf("[%s] %s", sig, msg)
}

// Check is like Failf but conditional.
func (c *Case) Check(ok bool, sig, format string, a ...any) {
	if !ok {
		c.Failf(sig, format, a...)
	}
}

var curLast = map[string]*lastFail{}

// abandon unwinds a case that ran into a listed known finding; the wrapper
// swallows it so the case passes and the search continues.
type abandon struct{}

// Abandon ends the current case without counting it (e.g. a generated case
// that falls outside the property's domain after all).
func (c *Case) Abandon() {
	c.noCount = true
	panic(abandon{})
}

// Rapid runs prop under rapid.Check with the tier's case count and a seed
// derived from VERIF_SEED, the property, the test name and the shard.
func Rapid(t *testing.T, quick, thorough int, prop func(rt *rapid.T, c *Case)) {
	n := N(quick, thorough)
	// shards split the work
	per := (n + E.NShards - 1) / E.NShards
	if per < 1 {
		per = 1
	}
	RapidN(t, per, prop)
}

func RapidN(t *testing.T, checks int, prop func(rt *rapid.T, c *Case)) {
	name := t.Name()
	// after a process death the driver restarts the shard: continue with the
	// remaining budget under a new seed instead of repeating the same cases
	if done := doneBefore[name]; done > 0 {
		checks -= int(done)
		if checks <= 0 {
			t.Skip("budget used up by earlier attempts")
		}
	}
	lf := &lastFail{}
	curLast[name] = lf
	_ = flag.Set("rapid.checks", strconv.Itoa(checks))
	seed := SeedFor(name)
	_ = flag.Set("rapid.seed", strconv.FormatUint(seed, 10))
	_ = flag.Set("rapid.nofailfile", "false")
	if E.Replay != "" {
		if ff := os.Getenv("VERIF_RAPID_FAILFILE"); ff != "" {
			_ = flag.Set("rapid.failfile", ff)
		}
	}
	t.Cleanup(func() {
		if t.Failed() {
			sig, msg, c := "unattributed-failure", "test failed without an oracle message (see log)", any(nil)
			if lf.set {
				sig, msg, c = lf.sig, lf.msg, lf.c
			}
			R.mu.Lock()
			v := Violation{Property: E.Property, Test: name, Signature: sig, Message: trunc(msg, 4000), Case: c, RapidSeed: seed}
			v.Path = writeReplay(v)
			R.frag.Violations = append(R.frag.Violations, v)
			R.flushLocked()
			R.mu.Unlock()
		}
	})
	var invocations int64
	rapid.Check(t, func(rt *rapid.T) {
		c := &Case{t: t, rt: rt, Data: map[string]any{}}
		invocations++
		R.mu.Lock()
		R.frag.Tests[name] = invocations
		R.mu.Unlock()
		defer func() {
			if r := recover(); r != nil {
				if _, ok := r.(abandon); ok {
					ExtraAdd("abandoned_cases", 1)
					return
				}
				tn := fmt.Sprintf("%T", r)
				if tn != "rapid.stopTest" && tn != "rapid.invalidData" {
					// a Go panic inside the code under test (or the harness)
					st := string(debug.Stack())
					lf.sig, lf.msg, lf.c, lf.set = "panic:"+TopRepoFrame(st), fmt.Sprintf("panic: %v\n%s", r, trunc(st, 3000)), c.JSON(), true
				}
				panic(r)
			}
			if !c.noCount {
				Count(Hash64(c.JSON()), c.nt, c.labels...)
				if c.nt && WantSample(name, 3) {
					Sample(name, 3, c.JSON())
				}
			}
		}()
		prop(rt, c)
	})
	_ = invocations
}

// FaultFrame returns the fq function in which the original (oldest) panic of
// a stack trace happened; panics re-raised by recoverfn.Run are skipped.
func FaultFrame(stack string) string {
	lines := strings.Split(stack, "\n")
	last := -1
	for i, l := range lines {
		if strings.HasPrefix(l, "panic(") {
			last = i
		}
	}
	for i := last + 1; i < len(lines); i++ {
		l := lines[i]
		if strings.HasPrefix(l, "github.com/wader/fq/") && !strings.HasPrefix(l, "github.com/wader/fq/verif/") && !strings.HasPrefix(l, "github.com/wader/fq/internal/recoverfn") {
			if j := strings.LastIndex(l, "("); j > 0 {
				l = l[:j]
			}
			return strings.TrimPrefix(l, "github.com/wader/fq/")
		}
	}
	return "unknown-frame"
}

// Watchdog ends the process with a VERIF-HANG marker when the journalled case
// has been open for longer than d.  The driver then excludes that case and
// restarts the shard; a hang is reported as suspected, never as a violation.
func Watchdog(d time.Duration) {
	go func() {
		for {
			time.Sleep(d / 8)
			journalMu.Lock()
			open, since := journalOpen, journalSince
			journalMu.Unlock()
			if open != "" && time.Since(since) > d {
				fmt.Fprintf(os.Stderr, "\nVERIF-HANG after %s: %s\n", d, open)
				R.flush()
				os.Exit(3)
			}
		}
	}()
}

// MakeFuzz adapts a harness property to Go's native fuzzing
// (f.Fuzz(harness.MakeFuzz(prop))): the fuzzer's bytes drive rapid's draws.
// Known findings are swallowed so that the campaign continues behind them.
func MakeFuzz(prop func(rt *rapid.T, c *Case)) func(*testing.T, []byte) {
	return rapid.MakeFuzz(func(rt *rapid.T) {
		c := &Case{rt: rt, Data: map[string]any{}}
		defer func() {
			if r := recover(); r != nil {
				if _, ok := r.(abandon); ok {
					return
				}
				panic(r)
			}
		}()
		prop(rt, c)
	})
}

// TopRepoFrame extracts the first stack frame that belongs to fq itself.
func TopRepoFrame(stack string) string {
	lines := strings.Split(stack, "\n")
	for i := 0; i+1 < len(lines); i++ {
		l := lines[i]
		if strings.HasPrefix(l, "github.com/wader/fq/") && !strings.HasPrefix(l, "github.com/wader/fq/verif/") {
			if j := strings.LastIndex(l, "("); j > 0 {
				l = l[:j]
			}
			return strings.TrimPrefix(l, "github.com/wader/fq/")
		}
	}
	return "unknown-frame"
}

// ---------------------------------------------------------------------------
// known findings

type KnownEntry struct {
	Kind     string // known | fixed
	Property string
	Sig      string
	Text     string
}

func (k KnownEntry) Matches(sig string) bool {
	if k.Sig == "" {
		return false
	}
	if strings.HasSuffix(k.Sig, "*") {
		return strings.HasPrefix(sig, strings.TrimSuffix(k.Sig, "*"))
	}
	return k.Sig == sig
}

// LoadKnownAll reads KNOWN_FINDINGS.txt plus findings/<ID>.txt (entries
// proposed while a check is being built; merged into the main file at review).
func LoadKnownAll(root, property string) []KnownEntry {
	out := LoadKnown(filepath.Join(root, "KNOWN_FINDINGS.txt"), property)
	if property != "" {
		out = append(out, LoadKnown(filepath.Join(root, "findings", property+".txt"), property)...)
	}
	return out
}

// LoadKnown parses lines of the form
//
//	known: property=C04 sig=<signature> <free text>
//	fixed: property=C01 <commit> <free text>
//
// Signatures may not contain spaces; a trailing * is a prefix match.
func LoadKnown(path, property string) []KnownEntry {
	b, err := os.ReadFile(path)
	if err != nil {
		return nil
	}
	var out []KnownEntry
	for _, line := range strings.Split(string(b), "\n") {
		line = strings.TrimSpace(line)
		if line == "" || strings.HasPrefix(line, "#") {
			continue
		}
		var e KnownEntry
		switch {
		case strings.HasPrefix(line, "known:"):
			e.Kind = "known"
			line = strings.TrimSpace(strings.TrimPrefix(line, "known:"))
		case strings.HasPrefix(line, "fixed:"):
			e.Kind = "fixed"
			line = strings.TrimSpace(strings.TrimPrefix(line, "fixed:"))
		default:
			continue
		}
		fs := strings.Fields(line)
		rest := []string{}
		for _, f := range fs {
			switch {
			case strings.HasPrefix(f, "property=") && e.Property == "":
				e.Property = strings.TrimPrefix(f, "property=")
			case strings.HasPrefix(f, "sig=") && e.Sig == "" && e.Kind == "known":
				e.Sig = strings.TrimPrefix(f, "sig=")
			default:
				rest = append(rest, f)
			}
		}
		e.Text = strings.Join(rest, " ")
		if property == "" || e.Property == property {
			out = append(out, e)
		}
	}
	return out
}

// ---------------------------------------------------------------------------
// crash isolation: journal of the open case and skip list

var (
	journalF  *os.File
	skipSet   map[string]bool
	skipOnce  sync.Once
	journalMu sync.Mutex

	journalOpen  string
	journalSince time.Time
)

// Journal records the descriptor of the case that is about to run, so that
// the driver can attribute a process death to it.
func Journal(desc string) {
	journalMu.Lock()
	defer journalMu.Unlock()
	journalOpen, journalSince = desc, time.Now()
	if journalF == nil {
		p := os.Getenv("VERIF_JOURNAL")
		if p == "" {
			return
		}
		f, err := os.OpenFile(p, os.O_CREATE|os.O_RDWR|os.O_TRUNC, 0o644)
		if err != nil {
			return
		}
		journalF = f
	}
	_ = journalF.Truncate(0)
	_, _ = journalF.WriteAt([]byte(desc), 0)
}

// JournalClear marks that no case is open.
func JournalClear() { Journal("") }

// Skipped reports whether desc was excluded after an earlier process death.
func Skipped(desc string) bool {
	skipOnce.Do(func() {
		skipSet = map[string]bool{}
		if p := os.Getenv("VERIF_SKIP"); p != "" {
			if b, err := os.ReadFile(p); err == nil {
				for _, l := range strings.Split(string(b), "\n") {
					if l = strings.TrimSpace(l); l != "" {
						skipSet[l] = true
					}
				}
			}
		}
		Extra("skipped_after_crash_list", len(skipSet))
	})
	return skipSet[desc]
}
