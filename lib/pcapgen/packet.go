// Package pcapgen holds hand-written writers for TCP segments, IPv4/IPv6
// datagrams (with IPv4 fragmentation), link layer framings and pcap / pcapng
// capture files.  Nothing here uses gopacket or fq: the writers are the
// independent side of the C19 oracle.
package pcapgen

import (
	"encoding/binary"
)

// TCP flag bits.
const (
	FIN = 0x01
	SYN = 0x02
	RST = 0x04
	PSH = 0x08
	ACK = 0x10
	URG = 0x20
	ECE = 0x40
	CWR = 0x80
)

const (
	ProtoTCP = 6

	EtherTypeIPv4 = 0x0800
	EtherTypeIPv6 = 0x86dd
	EtherTypeVLAN = 0x8100
)

// pcap/pcapng link types (https://www.tcpdump.org/linktypes.html).
const (
	LinkNull     = 0
	LinkEthernet = 1
	LinkRaw      = 101
	LinkSLL      = 113
	LinkIPv4     = 228
	LinkIPv6     = 229
	LinkSLL2     = 276
)

func sum16(acc uint32, b []byte) uint32 {
	for i := 0; i+1 < len(b); i += 2 {
		acc += uint32(b[i])<<8 | uint32(b[i+1])
	}
	if len(b)%2 == 1 {
		acc += uint32(b[len(b)-1]) << 8
	}
	return acc
}

func fold(acc uint32) uint16 {
	for acc>>16 != 0 {
		acc = acc&0xffff + acc>>16
	}
	return ^uint16(acc)
}

// TCPHeader describes one segment; Options is padded with zero bytes (end of
// option list) to a multiple of four.
type TCPHeader struct {
	SrcPort, DstPort uint16
	Seq, Ack         uint32
	Flags            uint8
	Window           uint16
	Urgent           uint16
	Options          []byte
}

// TCP serialises header + payload; src and dst are the 4 or 16 byte network
// addresses used for the pseudo header of the checksum.
func TCP(h TCPHeader, src, dst []byte, payload []byte) []byte {
	opts := append([]byte(nil), h.Options...)
	for len(opts)%4 != 0 {
		opts = append(opts, 0)
	}
	hl := 20 + len(opts)
	b := make([]byte, hl+len(payload))
	binary.BigEndian.PutUint16(b[0:], h.SrcPort)
	binary.BigEndian.PutUint16(b[2:], h.DstPort)
	binary.BigEndian.PutUint32(b[4:], h.Seq)
	binary.BigEndian.PutUint32(b[8:], h.Ack)
	b[12] = byte(hl/4) << 4
	b[13] = h.Flags
	binary.BigEndian.PutUint16(b[14:], h.Window)
	binary.BigEndian.PutUint16(b[18:], h.Urgent)
	copy(b[20:], opts)
	copy(b[hl:], payload)
	// pseudo header
	var acc uint32
	acc = sum16(acc, src)
	acc = sum16(acc, dst)
	if len(src) == 4 {
		acc += ProtoTCP
		acc += uint32(len(b))
	} else {
		acc += uint32(len(b)) >> 16
		acc += uint32(len(b)) & 0xffff
		acc += ProtoTCP
	}
	acc = sum16(acc, b)
	binary.BigEndian.PutUint16(b[16:], fold(acc))
	return b
}

// IPv4Header describes one datagram or fragment.  FragOff is in units of eight
// bytes.  Options is padded with zero bytes to a multiple of four.
type IPv4Header struct {
	TOS      uint8
	ID       uint16
	DF, MF   bool
	FragOff  uint16
	TTL      uint8
	Proto    uint8
	Src, Dst [4]byte
	Options  []byte
}

// IPv4 serialises header + payload with a correct header checksum.
func IPv4(h IPv4Header, payload []byte) []byte {
	opts := append([]byte(nil), h.Options...)
	for len(opts)%4 != 0 {
		opts = append(opts, 0)
	}
	hl := 20 + len(opts)
	b := make([]byte, hl+len(payload))
	b[0] = 0x40 | byte(hl/4)
	b[1] = h.TOS
	binary.BigEndian.PutUint16(b[2:], uint16(len(b)))
	binary.BigEndian.PutUint16(b[4:], h.ID)
	fo := h.FragOff & 0x1fff
	if h.DF {
		fo |= 0x4000
	}
	if h.MF {
		fo |= 0x2000
	}
	binary.BigEndian.PutUint16(b[6:], fo)
	b[8] = h.TTL
	b[9] = h.Proto
	copy(b[12:], h.Src[:])
	copy(b[16:], h.Dst[:])
	copy(b[20:], opts)
	binary.BigEndian.PutUint16(b[10:], fold(sum16(0, b[:hl])))
	copy(b[hl:], payload)
	return b
}

// FragmentIPv4 cuts payload at the given payload offsets (strictly increasing,
// each a multiple of eight, inside the payload) and returns the fragments in
// order.  h.MF / h.FragOff / h.DF of the argument are ignored.
func FragmentIPv4(h IPv4Header, payload []byte, cuts []int) [][]byte {
	var out [][]byte
	start := 0
	bounds := append(append([]int(nil), cuts...), len(payload))
	for i, end := range bounds {
		fh := h
		fh.DF = false
		fh.MF = i != len(bounds)-1
		fh.FragOff = uint16(start / 8)
		out = append(out, IPv4(fh, payload[start:end]))
		start = end
	}
	return out
}

// IPv6 serialises a datagram without extension headers.
func IPv6(src, dst [16]byte, nextHeader, hopLimit uint8, trafficClass uint8, flowLabel uint32, payload []byte) []byte {
	b := make([]byte, 40+len(payload))
	binary.BigEndian.PutUint32(b[0:], 6<<28|uint32(trafficClass)<<20|flowLabel&0xfffff)
	binary.BigEndian.PutUint16(b[4:], uint16(len(payload)))
	b[6] = nextHeader
	b[7] = hopLimit
	copy(b[8:], src[:])
	copy(b[24:], dst[:])
	copy(b[40:], payload)
	return b
}

// Ethernet frames payload; vlan < 0 means untagged, otherwise an 802.1Q tag
// with that TCI is inserted.  minLen > 0 pads the frame with zero bytes (the
// trailer a NIC adds to short frames).
func Ethernet(dst, src [6]byte, etherType uint16, vlan int, minLen int, payload []byte) []byte {
	b := make([]byte, 0, 18+len(payload))
	b = append(b, dst[:]...)
	b = append(b, src[:]...)
	if vlan >= 0 {
		b = binary.BigEndian.AppendUint16(b, EtherTypeVLAN)
		b = binary.BigEndian.AppendUint16(b, uint16(vlan))
	}
	b = binary.BigEndian.AppendUint16(b, etherType)
	b = append(b, payload...)
	for len(b) < minLen {
		b = append(b, 0)
	}
	return b
}

// SLL is the Linux cooked capture v1 header (16 bytes).
func SLL(packetType, arphrd uint16, addr []byte, proto uint16, payload []byte) []byte {
	b := make([]byte, 16, 16+len(payload))
	binary.BigEndian.PutUint16(b[0:], packetType)
	binary.BigEndian.PutUint16(b[2:], arphrd)
	if len(addr) > 8 {
		addr = addr[:8]
	}
	binary.BigEndian.PutUint16(b[4:], uint16(len(addr)))
	copy(b[6:14], addr)
	binary.BigEndian.PutUint16(b[14:], proto)
	return append(b, payload...)
}

// SLL2 is the Linux cooked capture v2 header (20 bytes).
func SLL2(proto uint16, ifIndex uint32, arphrd uint16, packetType uint8, addr []byte, payload []byte) []byte {
	b := make([]byte, 20, 20+len(payload))
	binary.BigEndian.PutUint16(b[0:], proto)
	binary.BigEndian.PutUint32(b[4:], ifIndex)
	binary.BigEndian.PutUint16(b[8:], arphrd)
	b[10] = packetType
	if len(addr) > 8 {
		addr = addr[:8]
	}
	b[11] = byte(len(addr))
	copy(b[12:20], addr)
	return append(b, payload...)
}

// Loopback is the BSD loopback header: the protocol family in the byte order
// of the capturing host.
func Loopback(family uint32, bigEndian bool, payload []byte) []byte {
	b := make([]byte, 4, 4+len(payload))
	if bigEndian {
		binary.BigEndian.PutUint32(b, family)
	} else {
		binary.LittleEndian.PutUint32(b, family)
	}
	return append(b, payload...)
}
