package pcapgen

import (
	"encoding/binary"
)

// Record is one captured packet.
type Record struct {
	TsSec  uint32
	TsFrac uint32 // micro or nano seconds (pcap); pcapng: low half of the 64-bit timestamp is derived
	Data   []byte
	Iface  int // pcapng interface index (ignored by pcap)
}

// PcapOpts selects the classic pcap flavour.
type PcapOpts struct {
	BigEndian bool
	Nano      bool
	LinkType  uint32
	Snaplen   uint32
	ThisZone  int32
}

func order(big bool) binary.AppendByteOrder {
	if big {
		return binary.BigEndian
	}
	return binary.LittleEndian
}

// WritePcap writes a classic pcap file.
func WritePcap(o PcapOpts, recs []Record) []byte {
	bo := order(o.BigEndian)
	magic := uint32(0xa1b2c3d4)
	if o.Nano {
		magic = 0xa1b23c4d
	}
	snap := o.Snaplen
	if snap == 0 {
		snap = 262144
	}
	var b []byte
	b = bo.AppendUint32(b, magic)
	b = bo.AppendUint16(b, 2)
	b = bo.AppendUint16(b, 4)
	b = bo.AppendUint32(b, uint32(o.ThisZone))
	b = bo.AppendUint32(b, 0)
	b = bo.AppendUint32(b, snap)
	b = bo.AppendUint32(b, o.LinkType)
	for _, r := range recs {
		b = bo.AppendUint32(b, r.TsSec)
		b = bo.AppendUint32(b, r.TsFrac)
		b = bo.AppendUint32(b, uint32(len(r.Data)))
		b = bo.AppendUint32(b, uint32(len(r.Data)))
		b = append(b, r.Data...)
	}
	return b
}

// NGOption is one pcapng option (code, raw value).
type NGOption struct {
	Code  uint16
	Value []byte
}

// NGIface is one interface description block.
type NGIface struct {
	LinkType uint16
	Snaplen  uint32
	Options  []NGOption
}

// NGExtra is a non-packet block written in front of the record with index
// Before (index len(recs) = after the last record).
type NGExtra struct {
	Before int
	Type   uint32
	Body   []byte // padded to a multiple of four by the writer
}

// NGOpts describes one pcapng section.
type NGOpts struct {
	BigEndian bool
	// ExplicitSectionLength writes the real section length into the section
	// header instead of -1 (both are valid).
	ExplicitSectionLength bool
	SHBOptions            []NGOption
	Ifaces                []NGIface
	// LateIfaces: interface blocks with index >= LateFrom are written in front
	// of the first record that uses them instead of at the start.
	LateFrom  int
	EPBOption func(i int) []NGOption
	Extras    []NGExtra
}

func ngOptions(bo binary.AppendByteOrder, opts []NGOption) []byte {
	if len(opts) == 0 {
		return nil
	}
	var b []byte
	for _, o := range opts {
		b = bo.AppendUint16(b, o.Code)
		b = bo.AppendUint16(b, uint16(len(o.Value)))
		b = append(b, o.Value...)
		for len(b)%4 != 0 {
			b = append(b, 0)
		}
	}
	// opt_endofopt
	b = bo.AppendUint16(b, 0)
	b = bo.AppendUint16(b, 0)
	return b
}

func ngBlock(bo binary.AppendByteOrder, typ uint32, body []byte) []byte {
	for len(body)%4 != 0 {
		body = append(body, 0)
	}
	total := uint32(12 + len(body))
	var b []byte
	b = bo.AppendUint32(b, typ)
	b = bo.AppendUint32(b, total)
	b = append(b, body...)
	b = bo.AppendUint32(b, total)
	return b
}

// WritePcapNG writes one section: SHB, IDBs, EPBs (+ extra blocks).
func WritePcapNG(o NGOpts, recs []Record) []byte {
	bo := order(o.BigEndian)
	var rest []byte
	idb := func(i NGIface) []byte {
		var body []byte
		body = bo.AppendUint16(body, i.LinkType)
		body = bo.AppendUint16(body, 0)
		snap := i.Snaplen
		if snap == 0 {
			snap = 262144
		}
		body = bo.AppendUint32(body, snap)
		body = append(body, ngOptions(bo, i.Options)...)
		return ngBlock(bo, 1, body)
	}
	lateFrom := o.LateFrom
	if lateFrom <= 0 || lateFrom > len(o.Ifaces) {
		lateFrom = len(o.Ifaces)
	}
	written := 0
	for ; written < lateFrom; written++ {
		rest = append(rest, idb(o.Ifaces[written])...)
	}
	extras := func(before int) {
		for _, e := range o.Extras {
			if e.Before == before {
				rest = append(rest, ngBlock(bo, e.Type, append([]byte(nil), e.Body...))...)
			}
		}
	}
	for i, r := range recs {
		extras(i)
		// interface blocks must precede their first use and keep their order
		for written <= r.Iface && written < len(o.Ifaces) {
			rest = append(rest, idb(o.Ifaces[written])...)
			written++
		}
		var body []byte
		body = bo.AppendUint32(body, uint32(r.Iface))
		// 64-bit timestamp in microseconds
		ts := uint64(r.TsSec)*1000000 + uint64(r.TsFrac%1000000)
		body = bo.AppendUint32(body, uint32(ts>>32))
		body = bo.AppendUint32(body, uint32(ts))
		body = bo.AppendUint32(body, uint32(len(r.Data)))
		body = bo.AppendUint32(body, uint32(len(r.Data)))
		body = append(body, r.Data...)
		for len(body)%4 != 0 {
			body = append(body, 0)
		}
		if o.EPBOption != nil {
			body = append(body, ngOptions(bo, o.EPBOption(i))...)
		}
		rest = append(rest, ngBlock(bo, 6, body)...)
	}
	extras(len(recs))
	for ; written < len(o.Ifaces); written++ {
		rest = append(rest, idb(o.Ifaces[written])...)
	}
	var shb []byte
	shb = bo.AppendUint32(shb, 0x1a2b3c4d)
	shb = bo.AppendUint16(shb, 1)
	shb = bo.AppendUint16(shb, 0)
	sl := uint64(0xffffffffffffffff)
	if o.ExplicitSectionLength {
		sl = uint64(len(rest))
	}
	shb = bo.AppendUint64(shb, sl)
	shb = append(shb, ngOptions(bo, o.SHBOptions)...)
	out := ngBlock(bo, 0x0a0d0d0a, shb)
	return append(out, rest...)
}
