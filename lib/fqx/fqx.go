// Package fqx holds the helpers every fq-level check shares: the sample corpus
// (file, format) pairs taken from the *.fqtest files, direct decode.Decode
// access, jq evaluation through interp.Interp and whole-CLI runs.
package fqx

import (
	"context"
	"errors"
	"fmt"
	"os"
	"path/filepath"
	"sort"
	"strings"
	"sync"

	_ "github.com/wader/fq/format/all"
	"github.com/wader/fq/internal/script"
	"github.com/wader/fq/pkg/bitio"
	"github.com/wader/fq/pkg/decode"
	"github.com/wader/fq/pkg/interp"
	"github.com/wader/fq/verif/lib/vos"
	"github.com/wader/gojq"
)

// RepoDir is where the fq tree under test lives (sample files are read from it).
func RepoDir() string {
	if d := os.Getenv("VERIF_REPO"); d != "" {
		return d
	}
	return "/repo"
}

func Registry() *interp.Registry { return interp.DefaultRegistry }

// Entry is one (sample file, format) pair of the corpus.
type Entry struct {
	Path   string // relative to the repo
	Format string // format or group name given with -d, "probe" if none
	Data   []byte
}

var (
	corpusOnce sync.Once
	corpus     []Entry
)

// Corpus returns the (file, format) pairs named by the commands of every
// *.fqtest file under format/ and pkg/, sorted by path then format.
func Corpus() []Entry {
	corpusOnce.Do(func() {
		root := RepoDir()
		seen := map[string]bool{}
		cache := map[string][]byte{}
		_ = filepath.Walk(root, func(path string, info os.FileInfo, err error) error {
			if err != nil || info.IsDir() || filepath.Ext(path) != ".fqtest" {
				return nil
			}
			b, err := os.ReadFile(path)
			if err != nil {
				return nil
			}
			dir := filepath.Dir(path)
			// only the command lines are needed; script.ParseCases is slow on
			// the large golden files, so take the "$ ..." lines directly
			for _, line := range strings.Split(string(b), "\n") {
				if !strings.HasPrefix(line, "$ ") {
					continue
				}
				var args []string
				func() {
					defer func() { _ = recover() }()
					_, args = script.ParseCommand(strings.TrimPrefix(line, "$"))
				}()
				if len(args) == 0 {
					continue
				}
				format := "probe"
				var files []string
				for i := 1; i < len(args); i++ {
					a := args[i]
					switch {
					case a == "-d" && i+1 < len(args):
						format = args[i+1]
						i++
					case strings.HasPrefix(a, "-d") && len(a) > 2 && !strings.HasPrefix(a, "--"):
						format = a[2:]
					case strings.HasPrefix(a, "--decode="):
						format = strings.TrimPrefix(a, "--decode=")
					case strings.HasPrefix(a, "-"):
					default:
						fp := filepath.Join(dir, a)
						if st, err := os.Stat(fp); err == nil && st.Mode().IsRegular() && filepath.Ext(fp) != ".fqtest" && filepath.Ext(fp) != ".jq" {
							files = append(files, fp)
						}
					}
				}
				if _, err := interp.DefaultRegistry.Group(format); err != nil {
					continue
				}
				for _, fp := range files {
					rel, _ := filepath.Rel(root, fp)
					key := rel + "\x00" + format
					if seen[key] {
						continue
					}
					seen[key] = true
					data, ok := cache[fp]
					if !ok {
						data, err = os.ReadFile(fp)
						if err != nil {
							continue
						}
						cache[fp] = data
					}
					corpus = append(corpus, Entry{Path: rel, Format: format, Data: data})
				}
			}
			return nil
		})
		sort.Slice(corpus, func(i, j int) bool {
			if corpus[i].Path != corpus[j].Path {
				return corpus[i].Path < corpus[j].Path
			}
			return corpus[i].Format < corpus[j].Format
		})
	})
	return corpus
}

// CorpusMax returns the entries whose file is at most maxBytes long.
func CorpusMax(maxBytes int) []Entry {
	var out []Entry
	for _, e := range Corpus() {
		if len(e.Data) <= maxBytes {
			out = append(out, e)
		}
	}
	return out
}

// Decode runs decode.Decode like fq's top level decode does (root, gap filling).
func Decode(ctx context.Context, data []byte, format string, force bool) (*decode.Value, any, error) {
	g, err := interp.DefaultRegistry.Group(format)
	if err != nil {
		return nil, nil, err
	}
	br := bitio.NewBitReader(data, -1)
	return decode.Decode(ctx, br, g, decode.Options{IsRoot: true, FillGaps: true, Force: force, Description: "verif"})
}

// DecodeFn runs a harness-defined decoder against the public decode API.
func DecodeFn(ctx context.Context, data []byte, nBits int64, name string, fn func(d *decode.D) any) (*decode.Value, any, error) {
	f := &decode.Format{Name: name, Description: "verif harness format", DecodeFn: fn}
	g := &decode.Group{Name: name, Formats: []*decode.Format{f}}
	br := bitio.NewBitReader(data, nBits)
	return decode.Decode(ctx, br, g, decode.Options{IsRoot: true, FillGaps: true, Description: "verif"})
}

// Walk visits v and all its descendants (crossing into nested buffers) in pre-order.
func Walk(v *decode.Value, fn func(v *decode.Value, depth int)) {
	var rec func(v *decode.Value, depth int)
	rec = func(v *decode.Value, depth int) {
		fn(v, depth)
		if c, ok := v.V.(*decode.Compound); ok {
			for _, ch := range c.Children {
				rec(ch, depth+1)
			}
		}
	}
	rec(v, 0)
}

// Interp bundles an interpreter with its virtual OS.
type Interp struct {
	I  *interp.Interp
	OS *vos.OS
}

func NewInterp() (*Interp, error) {
	o := vos.New()
	i, err := interp.New(o, interp.DefaultRegistry)
	if err != nil {
		return nil, err
	}
	return &Interp{I: i, OS: o}, nil
}

func (x *Interp) Close() { x.I.Stop() }

// Eval evaluates expr with input c and returns the outputs before the first
// error and that error (nil if the program ended normally).  Compile errors are
// returned as cerr.
func (x *Interp) Eval(ctx context.Context, c any, expr string) (outs []any, runErr error, cerr error) {
	iter, err := x.I.Eval(ctx, c, expr, interp.EvalOpts{})
	if err != nil {
		return nil, nil, err
	}
	for {
		v, ok := iter.Next()
		if !ok {
			return outs, nil, nil
		}
		if e, ok := v.(error); ok {
			return outs, e, nil
		}
		outs = append(outs, v)
	}
}

// CaseResult is the observable of one batched case: values until the first
// uncaught error and whether it ended in one.
type CaseResult struct {
	Values []any
	Failed bool
	ErrVal any
}

// BatchExpr wraps each case so that one Eval yields one array per case:
// [ {v: out}..., {e: err}? ].
func BatchExpr(cases []string) string {
	var sb strings.Builder
	sb.WriteString("[")
	for i, c := range cases {
		if i > 0 {
			sb.WriteString(",\n")
		}
		fmt.Fprintf(&sb, "[try ((%s) | {v: .}) catch {e: .}]", c)
	}
	sb.WriteString("]")
	return sb.String()
}

var ErrBatchShape = errors.New("batch result has unexpected shape")

// EvalBatch evaluates all cases with the same input in one Eval.
func (x *Interp) EvalBatch(ctx context.Context, c any, cases []string) ([]CaseResult, error) {
	outs, rerr, cerr := x.Eval(ctx, c, BatchExpr(cases))
	if cerr != nil {
		return nil, cerr
	}
	if rerr != nil {
		return nil, rerr
	}
	if len(outs) != 1 {
		return nil, ErrBatchShape
	}
	arr, ok := outs[0].([]any)
	if !ok || len(arr) != len(cases) {
		return nil, ErrBatchShape
	}
	res := make([]CaseResult, len(cases))
	for i, a := range arr {
		items, ok := a.([]any)
		if !ok {
			return nil, ErrBatchShape
		}
		for _, it := range items {
			m, ok := it.(map[string]any)
			if !ok {
				return nil, ErrBatchShape
			}
			if v, has := m["v"]; has {
				res[i].Values = append(res[i].Values, v)
			} else {
				res[i].Failed = true
				res[i].ErrVal = m["e"]
			}
		}
	}
	return res, nil
}

// RawGojq runs a program on the reference engine (the gojq fork fq embeds)
// without any of fq's definitions.
func RawGojq(ctx context.Context, prog string, input any, opts ...gojq.CompilerOption) (outs []any, runErr error, cerr error) {
	q, err := gojq.Parse(prog)
	if err != nil {
		return nil, nil, err
	}
	code, err := gojq.Compile(q, opts...)
	if err != nil {
		return nil, nil, err
	}
	iter := code.RunWithContext(ctx, input)
	for {
		v, ok := iter.Next()
		if !ok {
			return outs, nil, nil
		}
		if e, ok := v.(error); ok {
			return outs, e, nil
		}
		outs = append(outs, v)
	}
}

// Main runs the whole CLI in-process.
func Main(args []string, files map[string][]byte, stdin []byte) vos.Result {
	o := vos.New(args...)
	for k, v := range files {
		o.Files[k] = v
	}
	o.StdinData = stdin
	o.StdinTTY = stdin == nil
	return o.Run(context.Background(), interp.DefaultRegistry)
}
