package jqgen

import (
	"math"
	"math/big"

	"pgregory.net/rapid"
)

func bigStr(s string) *big.Int {
	b, _ := new(big.Int).SetString(s, 10)
	return b
}

var intPool = []any{0, 1, -1, 2, 3, 10, 100, 255, 256, -7, 1<<31 - 1, 1 << 31, 1<<53 - 1, 1 << 53, 1<<53 + 1, -(1<<53 + 1), math.MaxInt64, math.MinInt64,
	bigStr("9223372036854775808"), bigStr("18446744073709551615"), bigStr("18446744073709551616"), bigStr("18446744073709551617"), bigStr("1000000000000000000000000000000"),
	new(big.Int).Lsh(big.NewInt(1), 200), new(big.Int).Neg(new(big.Int).Lsh(big.NewInt(1), 200)), bigStr("-9223372036854775809")}

var floatPool = []any{0.5, 1.5, -2.25, 0.1, 1e-7, 1.5e300, 5e-324, math.MaxFloat64, -1e21, 1e21, 123456.789, 1e17, 2.5e-5, 3.0000000000000004, 4.35, 1e100}

var strPool = []string{"", "a", "abc", "a.b", "A", "é", "日本", "😀", "\u0000", "\n\t", " ", "\u007f", "a\\b", "\"q\"", " x ", "123", "1.5", "null", "[1,2]", "{\"a\":1}", "true", "nan", "aaaaaaaaaaaaaaaaaaaa", "a,b, c", "tst 123 foo", "<&>'", "é", "\ufeffx", "2015-03-05T23:51:47Z", "x y", "%41", "YWJj", "\U0010ffff"}

// Value draws a JSON value in gojq's Go representation (nil, bool, int,
// float64, *big.Int, string, []any, map[string]any).  No NaN / infinities: the
// value must be expressible as JSON text.
func Value(rt *rapid.T, depth int) any {
	k := Uniform(rt, 15+1)
	if depth <= 0 && k >= 10 {
		k = k % 10
	}
	switch k {
	case 0:
		return nil
	case 1:
		return Uniform(rt, 2) == 1
	case 2, 3:
		if Uniform(rt, 2+1) > 0 {
			return Uniform(rt, 24) - 3
		}
		return intPool[Uniform(rt, len(intPool))]
	case 4:
		return floatPool[Uniform(rt, len(floatPool))]
	case 5, 6, 7:
		if Uniform(rt, 3+1) == 0 {
			return subjectPool[Uniform(rt, len(subjectPool))]
		}
		return strPool[Uniform(rt, len(strPool))]
	case 8, 9, 10, 11, 12:
		n := Uniform(rt, 4+1)
		m := make(map[string]any, n)
		for i := 0; i < n; i++ {
			var key string
			if Uniform(rt, 2+1) > 0 {
				key = identKeys[Uniform(rt, len(identKeys))]
			} else {
				key = keyPool[Uniform(rt, len(keyPool))]
			}
			m[key] = Value(rt, depth-1)
		}
		return m
	default:
		n := Uniform(rt, 4+1)
		a := make([]any, n)
		for i := range a {
			a[i] = Value(rt, depth-1)
		}
		return a
	}
}

// TypeOf returns the jq type of a value in gojq's Go representation.
func TypeOf(v any) Typ {
	switch v.(type) {
	case int, float64, *big.Int:
		return TNum
	case string:
		return TStr
	case []any:
		return TArr
	case map[string]any:
		return TObj
	case bool:
		return TBool
	}
	return TAny
}
