// Package jqgen generates jq programs (as text) and JSON input values with
// rapid.  It is shared by the jq-level properties:
//
//   - C07 uses Standard mode: terminating programs of the standard jq language,
//     no environment / IO built-ins, typed generation so that most programs get
//     past their first operator.
//   - C08 can use ReadOnly (Standard without assignment/update/delete).
//   - C11 uses Full mode: the same grammar plus syntax the parser accepts that
//     is not "standard" (fq literal extensions, redundant parentheses, odd
//     whitespace, comments, keyword object keys, trailing commas).
//
// All randomness comes from rapid draws.
package jqgen

import (
	"fmt"
	"sort"
	"strconv"
	"strings"

	"pgregory.net/rapid"
)

// Typ is the (intended) type of the value an expression produces or receives.
type Typ uint8

const (
	TAny Typ = iota
	TNum
	TStr
	TArr
	TObj
	TBool
	nTyp
)

func (t Typ) String() string { return [...]string{"any", "num", "str", "arr", "obj", "bool"}[t] }

// precedence levels of the jq grammar, loosest first
const (
	PPipe  = iota // a | b, def f: ..; q, t as $x | q, label $l | q
	PComma        // a, b
	PAlt          // a // b (right assoc)
	PUpd          // a = b, |=, +=, ... (non assoc)
	POr
	PAnd
	PCmp // non assoc
	PAdd
	PMul
	PUnary // -t, try, reduce, foreach, if (things that are terms but must not take a suffix unparenthesised)
	PTerm  // literal, call, (q), [q], {..}, .a, $x
)

// E is a rendered expression with the precedence of its outermost construct.
type E struct {
	S string
	P int
}

type Mode int

const (
	Standard Mode = iota
	ReadOnly
	Full
)

type Config struct {
	Mode     Mode
	MaxDepth int // grammar levels below the root (default 4)
	Budget   int // soft bound on the number of productions used (default 24)
	Input    Typ // type of the value the program will be applied to (TAny: unknown)
	Mistype  int // permille of sub-expressions generated with a random type instead of the wanted one (default 60)
	// Full mode only
	ExtraParens int // permille of operands that get redundant parentheses
	Directives  int // permille of programs that start with module/import/include directives
	Sloppy      int // permille of operands whose needed parentheses are dropped (program may then parse differently or not at all)
}

// Prog is a generated program.
type Prog struct {
	Text     string
	Prods    int      // productions used
	Depth    int      // grammar levels actually used
	Features []string // sorted: builtin names and construct names used
	// Full mode: the program starts with module/import/include directives (it
	// cannot be compiled without a module loader)
	Directives bool
	Body       string // the program without the directives
}

func (p *Prog) Has(f string) bool {
	i := sort.SearchStrings(p.Features, f)
	return i < len(p.Features) && p.Features[i] == f
}

// Overloaded lists the standard built-ins that fq redefines or wraps.
var Overloaded = []string{"split", "splits", "test", "match", "capture", "scan", "explode", "tojson", "fromjson", "debug", "stderr", "@json"}

// OverloadedUsed returns the overloaded built-ins the program calls.
func (p *Prog) OverloadedUsed() []string {
	var out []string
	for _, o := range Overloaded {
		if p.Has(o) {
			out = append(out, o)
		}
	}
	return out
}

type varInfo struct {
	name string
	t    Typ
}

type fnInfo struct {
	name  string
	ret   Typ
	param int // 0: none, 1: closure param f(g), 2: value param f($a)
}

type gen struct {
	rt     *rapid.T
	cfg    Config
	budget int
	vars   []varInfo
	fns    []fnInfo
	labels []string
	feat   map[string]struct{}
	depth  int
	prods  int
	nfn    int
	nlabel int
	top    int
	// > 0 while the left side of an update is generated: no `a, b` there.  The
	// embedded engine builds a self-containing array for
	// `null | (.[0], .[:1]) |= [.]`, which no Go code can print or compare.
	noComma int
}

// Gen draws one program.
func Gen(rt *rapid.T, cfg Config) *Prog {
	if cfg.MaxDepth == 0 {
		cfg.MaxDepth = 4
	}
	if cfg.Budget == 0 {
		cfg.Budget = 24
	}
	if cfg.Mistype == 0 {
		cfg.Mistype = 60
	}
	g := &gen{rt: rt, cfg: cfg, budget: cfg.Budget, feat: map[string]struct{}{}}
	d := cfg.MaxDepth - g.pick([]int{4, 4, 3, 2, 1})
	if d < 0 {
		d = 0
	}
	t := Typ(g.pick(wTopType))
	g.top = d
	e := g.expr(t, d, cfg.Input)
	text := e.S
	body := text
	directives := false
	if cfg.Mode == Full {
		text = g.fullWrap(text)
		body = text
		if g.chance(cfg.Directives) {
			directives = true
			text = g.directives() + text
		}
	}
	p := &Prog{Text: text, Prods: g.prods, Depth: g.depth, Directives: directives, Body: body}
	for f := range g.feat {
		p.Features = append(p.Features, f)
	}
	sort.Strings(p.Features)
	return p
}

var wTopType = []int{5, 1, 2, 2, 2, 1}

// ---------------------------------------------------------------------------
// draw helpers

// rapid's integer generators prefer small values (short bit lengths), which is
// good for data but wrong for choosing among alternatives: a 5% branch would be
// taken half of the time.  Uniform draws one uint64 and scrambles it; 0 (what
// the shrinker heads for) maps to the first alternative.
func Uniform(rt *rapid.T, k int) int {
	if k <= 1 {
		return 0
	}
	u := rapid.Uint64().Draw(rt, "u")
	if u == 0 {
		return 0
	}
	u += 0x9e3779b97f4a7c15
	u = (u ^ (u >> 30)) * 0xbf58476d1ce4e5b9
	u = (u ^ (u >> 27)) * 0x94d049bb133111eb
	u ^= u >> 31
	return int(u % uint64(k))
}

func (g *gen) n(k int) int { return Uniform(g.rt, k) }

func (g *gen) chance(permille int) bool {
	if permille <= 0 {
		return false
	}
	// 0 (the shrinker's target) is "no"
	return 999-Uniform(g.rt, 1000) < permille
}

func (g *gen) pick(w []int) int {
	tot := 0
	for _, x := range w {
		tot += x
	}
	r := g.n(tot)
	for i, x := range w {
		if r < x {
			return i
		}
		r -= x
	}
	return len(w) - 1
}

func (g *gen) of(xs ...string) string { return xs[g.n(len(xs))] }

func (g *gen) use(f string) { g.feat[f] = struct{}{} }

func (g *gen) seen(d int) {
	lvl := g.top - d
	if lvl > g.depth {
		g.depth = lvl
	}
}

// wrap renders e in a position that needs precedence >= min.
func (g *gen) wrap(e E, min int) string {
	if e.P < min {
		if g.cfg.Mode == Full && g.chance(g.cfg.Sloppy) {
			return e.S
		}
		return "(" + e.S + ")"
	}
	if g.cfg.Mode == Full && g.chance(g.cfg.ExtraParens) {
		if g.chance(200) {
			return "((" + e.S + "))"
		}
		return "(" + e.S + ")"
	}
	return e.S
}

// sp is optional whitespace around punctuation (Full mode varies it).
func (g *gen) sp() string {
	if g.cfg.Mode != Full {
		return " "
	}
	switch g.n(12) {
	case 0:
		return ""
	case 1:
		return "  "
	case 2:
		return "\n"
	case 3:
		return "\t"
	case 4:
		return " # c | ) \"\n"
	case 5:
		// the lexer's white space is space, tab, LF and CR; a comment ends at LF or CR
		// and a backslash continues it over the line break
		g.use("cr-whitespace")
		return g.of("\r\n", "\r", " \r\n\t", " # c\r\n", " # c\r", " # c \\\n still ) \" comment\n", " # c \\\r\n still comment\r\n", "\t\r")
	default:
		return " "
	}
}

// ---------------------------------------------------------------------------
// literals

var keyPool = []string{"a", "b", "c", "k", "", "é", "k 1", "10", "A", "a.b", "😀", "$x", "if", "_error", "_name"}
var identKeys = []string{"a", "b", "c", "k", "A"}

// KeyPool is the pool object keys of generated inputs and programs share.
func KeyPool() []string { return keyPool }

var subjectPool = []string{"abc", "a.b.c", "aXbxC", "tst 123 foo", "a\\b", "a,b, c", "ééé", "😀x😀", "", "  pad  ", "l1\nl2", "a1b22c333", "foo bar foo", "a|b", "x*y+z", "(p)[q]{r}", "^$", "A", "aaa"}
var metaPool = []string{".", "\\", "a.b", "*", "(", "[", "$", "^", "|", "+", "?", "{", "}", ")", "]", "\\d", " ", "", ",", ", ", "ab", "a", "b", "é", "\n", "x", "aa", "1", "\\\\", ".*", "[a-z]", "😀"}
var jsonTextPool = []string{`{"_error":{"error":"x"}}`, `{"_error":1,"_format":"f","_name":null}`, `1`, `"s"`, `null`, `true`, `[1,2,3]`, `[]`, `{}`, `{"a":1}`, `{"a":{"b":[1,2,{"c":null}]}}`, `{"b":1,"a":2}`, `{"c":3,"b":[true],"a":"x","d":{"z":1,"y":2}}`, `[{"k":1},{"k":2,"a":null}]`,
	`12345678901234567890`, `1.5e300`, `1e1000`, `-0`, `0.1`, `"é😀"`, ` [1 , 2] `, `{"a":1,"a":2}`, `[1,2`, ``, `nan`, `1 2`, `{"":1}`, `"\u0000"`, `1.0`, `100000000000000000000000`, `[[[]]]`, `{"a":[{"b":"c"}]}`}
var flagPool = []string{`"g"`, `"i"`, `"x"`, `"gi"`, `""`, `null`, `"n"`, `"s"`, `"l"`, `"gx"`, `"q"`, `"ig"`, `"p"`}
var numLits = []string{"0", "1", "2", "3", "-1", "10", "1.5", "0.5", "100", "255", "1e3", "7", "-2", "9007199254740993", "1e300", "0.1", "1.0", "1e-7", "12345678901234567890", "4", "5"}

// Quote renders s as a jq string literal.
func Quote(s string) string {
	var sb strings.Builder
	sb.WriteByte('"')
	for _, r := range s {
		switch r {
		case '"':
			sb.WriteString(`\"`)
		case '\\':
			sb.WriteString(`\\`)
		case '\n':
			sb.WriteString(`\n`)
		case '\t':
			sb.WriteString(`\t`)
		case '\r':
			sb.WriteString(`\r`)
		default:
			if r < 0x20 || r == 0x7f {
				sb.WriteString(`\u00`)
				sb.WriteString(strconv.FormatInt(int64(r)>>4, 16))
				sb.WriteString(strconv.FormatInt(int64(r)&15, 16))
			} else {
				sb.WriteRune(r)
			}
		}
	}
	sb.WriteByte('"')
	return sb.String()
}

// rawPool: strings whose characters the lexer accepts unescaped inside a
// literal (Full mode spells them raw): line breaks of every kind, C0 controls,
// NEL, U+2028/2029, non-BMP.
var rawPool = []string{"a\r\nb", "\r\n", "x\ry", "\r", "l1\nl2", "\n", "x\ty", "\u0001\u001f", "\f\v\b", "a\u0085b", "\u2028\u2029", "😀\r\n𝄞", "\r\n\r\n", "q\r\n\tq", "\u007f\u0080", "é\r\nü"}

// rawQuote renders s as a jq string literal in which the characters the lexer
// accepts raw are (mostly) left raw.
func (g *gen) rawQuote(s string) string {
	var sb strings.Builder
	sb.WriteByte('"')
	rs := []rune(s)
	for i := 0; i < len(rs); i++ {
		r := rs[i]
		switch {
		case r == '"':
			sb.WriteString(`\"`)
		case r == '\\':
			sb.WriteString(`\\`)
		case r < 0x20 || r == 0x7f || r == 0x85 || r == 0x2028 || r == 0x2029 || r > 0xffff:
			if g.chance(800) {
				g.markRaw(rs, i)
				sb.WriteRune(r)
			} else if r > 0xffff {
				sb.WriteRune(r)
			} else {
				sb.WriteString(fmt.Sprintf(`\u%04x`, r))
			}
		default:
			sb.WriteRune(r)
		}
	}
	sb.WriteByte('"')
	return sb.String()
}

func (g *gen) markRaw(rs []rune, i int) {
	switch r := rs[i]; {
	case r == '\r' && i+1 < len(rs) && rs[i+1] == '\n':
		g.use("raw-crlf-in-string")
	case r == '\r':
		g.use("raw-cr-in-string")
	case r == '\n':
		g.use("raw-lf-in-string")
	case r < 0x20 || r == 0x7f:
		g.use("raw-control-in-string")
	default:
		g.use("raw-unicode-in-string")
	}
}

// fullStr: Full mode replaces a literal now and then by one with raw characters.
func (g *gen) fullStr() (string, bool) {
	if g.cfg.Mode != Full || !g.chance(250) {
		return "", false
	}
	s := rawPool[g.n(len(rawPool))]
	if !strings.ContainsAny(s, "`") && g.chance(250) {
		rs := []rune(s)
		for i := range rs {
			g.markRaw(rs, i)
		}
		g.use("raw-string-literal")
		return "`" + s + "`", true // fq raw string: everything is raw
	}
	return g.rawQuote(s), true
}

func (g *gen) strLit(pool []string) string {
	if l, ok := g.fullStr(); ok {
		return l
	}
	s := pool[g.n(len(pool))]
	if g.cfg.Mode == Full && !strings.ContainsAny(s, "`") && g.chance(120) {
		return "`" + s + "`" // fq raw string literal
	}
	return Quote(s)
}

func (g *gen) numLit() string {
	if g.cfg.Mode == Full && g.chance(200) {
		return g.of("0x10", "0xff", "0b101", "0o17", "0x1_0", "0b1_1", "0xAbC", "0o7_7", "0x0", "0b0")
	}
	return numLits[g.n(len(numLits))]
}

func (g *gen) smallInt() string { return strconv.Itoa(g.n(4)) }
func (g *gen) idxLit() string   { return strconv.Itoa(g.n(6) - 2) }

// ---------------------------------------------------------------------------
// regular expressions

func (g *gen) regexSrc(d int) string {
	if d <= 0 {
		return g.of("a", "b", "c", ".", "[a-c]", "\\d", "\\w", "\\s", "x", "é", "[^a]", "\\.", "\\\\", "[0-9]", "o", " ", "1", "X", "😀", "\\pL", "$", "^", "\\b")
	}
	switch g.n(12) {
	case 0, 1, 2:
		return g.regexSrc(d-1) + g.regexSrc(d-1)
	case 3:
		return "(" + g.regexSrc(d-1) + ")"
	case 4:
		return "(?<" + g.of("x", "y", "n") + ">" + g.regexSrc(d-1) + ")"
	case 5:
		return "(?:" + g.regexSrc(d-1) + ")"
	case 6:
		return g.regexSrc(d-1) + g.of("*", "+", "?", "{1,2}", "*?", "+?", "{2}")
	case 7:
		return g.regexSrc(d-1) + "|" + g.regexSrc(d-1)
	case 8:
		return "^" + g.regexSrc(d-1)
	case 9:
		return g.regexSrc(d-1) + "$"
	case 10:
		return g.of("(?i)", "(?s)", "(?m)") + g.regexSrc(d-1)
	default:
		return g.regexSrc(0)
	}
}

func (g *gen) regexLit() string {
	switch g.n(10) {
	case 0, 1:
		// literal text with metacharacters used as a pattern (often invalid)
		return Quote(metaPool[g.n(len(metaPool))])
	case 2:
		return Quote(g.of("(?<x>[a-z]+)", "(?<x>\\d+)(?<y>[a-z])?", "(a)|(b)", "", "\\s+", ", *", "[a-c]+", "(?<n>.)", "b*", "^", "$", "\\b", "(?<x>a)(?<x>b)"))
	default:
		return Quote(g.regexSrc(g.n(3)))
	}
}

// ---------------------------------------------------------------------------
// templates

type seg struct {
	lit  string
	kind byte // 0 literal; a n s r o b p g typed; R F L S K k N I J V literal generators
	min  int  // precedence required at this position
	dot  byte // 0 ambient, else one of a n s r o b
}

type prod struct {
	t     Typ
	w     int
	dots  uint8 // bit mask over Typ of the ambient dot this production makes sense for; 0 = all
	prec  int
	segs  []seg
	leaf  bool
	write bool
	over  bool
	feats []string
	src   string
}

var prodsByType [nTyp][]*prod

var typOfLetter = map[byte]Typ{'a': TAny, 'n': TNum, 's': TStr, 'r': TArr, 'o': TObj, 'b': TBool, 'g': TAny, 'p': TAny, 'u': TAny}

func dotsMask(s string) uint8 {
	var m uint8
	for i := 0; i < len(s); i++ {
		m |= 1 << typOfLetter[s[i]]
	}
	return m
}

// T registers a template production.
//
//	%s          string-typed sub-expression, parenthesised unless it is a term
//	%0s %1s     same, but only precedence >= 0 / >= 1 is required at this position
//	%s{o}       sub-expression whose input (dot) is an object (default: the ambient dot)
//	%a %n %s %r %o %b   any / number / string / array / object / boolean
//	%p          path expression, %u path expression for the left side of an update, %g any (generator position)
//	%R regex literal, %F flags literal, %L literal string with metacharacters,
//	%S subject string literal, %K quoted key, %k identifier key, %N small int,
//	%I index literal, %J string literal holding JSON text, %V variable or literal, %M number literal
func T(t Typ, w int, dots string, tmpl string) {
	p := &prod{t: t, w: w, dots: dotsMask(dots), src: tmpl, leaf: true, prec: PTerm}
	var lit, flat strings.Builder
	flush := func() {
		if lit.Len() > 0 {
			p.segs = append(p.segs, seg{lit: lit.String()})
			lit.Reset()
		}
	}
	for i := 0; i < len(tmpl); i++ {
		ch := tmpl[i]
		if ch == '%' && i+1 < len(tmpl) && tmpl[i+1] == '%' {
			lit.WriteByte('%')
			flat.WriteByte('%')
			i++
			continue
		}
		if ch == '%' && i+1 < len(tmpl) {
			flush()
			i++
			s := seg{min: PTerm}
			if tmpl[i] >= '0' && tmpl[i] <= '9' {
				s.min = int(tmpl[i] - '0')
				i++
			}
			s.kind = tmpl[i]
			if i+3 < len(tmpl) && tmpl[i+1] == '{' && tmpl[i+3] == '}' {
				s.dot = tmpl[i+2]
				i += 3
			}
			if _, typed := typOfLetter[s.kind]; typed {
				p.leaf = false
			} else if !strings.ContainsRune("RFLSKkNIMJV", rune(s.kind)) {
				panic("jqgen: bad placeholder in template: " + tmpl)
			}
			p.segs = append(p.segs, s)
			flat.WriteString("X")
			continue
		}
		lit.WriteByte(ch)
		flat.WriteByte(ch)
	}
	flush()
	p.prec = topPrec(flat.String())
	// features: identifiers and @formats of the literal parts
	for _, s := range p.segs {
		if s.kind != 0 {
			continue
		}
		l := s.lit
		for i := 0; i < len(l); {
			c := l[i]
			switch {
			case c == '"':
				j := i + 1
				for j < len(l) && l[j] != '"' {
					if l[j] == '\\' {
						j++
					}
					j++
				}
				i = j + 1
			case c == '@' || c == '$' || c == '.' && i+1 < len(l) && isIdentStart(l[i+1]):
				j := i + 1
				for j < len(l) && isIdentChar(l[j]) {
					j++
				}
				if c == '@' {
					p.feats = append(p.feats, l[i:j])
				}
				i = j
			case isIdentStart(c):
				j := i
				for j < len(l) && isIdentChar(l[j]) {
					j++
				}
				w := l[i:j]
				if !jqKeywords[w] {
					p.feats = append(p.feats, w)
				}
				i = j
			default:
				i++
			}
		}
	}
	for _, f := range p.feats {
		if writeFuncs[f] {
			p.write = true
		}
		for _, o := range Overloaded {
			if f == o {
				p.over = true
			}
		}
	}
	if strings.Contains(tmpl, "= ") || strings.Contains(tmpl, "|=") {
		p.write = true
	}
	prodsByType[t] = append(prodsByType[t], p)
}

// topPrec computes the precedence of the outermost construct of a template
// (placeholders replaced by X).
func topPrec(f string) int {
	f = strings.TrimSpace(f)
	prec := PTerm
	low := func(p int) {
		if p < prec {
			prec = p
		}
	}
	for _, kw := range []string{"try ", "reduce ", "foreach ", "if ", "-"} {
		if strings.HasPrefix(f, kw) {
			low(PUnary)
		}
	}
	if strings.HasPrefix(f, "def ") || strings.HasPrefix(f, "label ") {
		return PPipe
	}
	depth := 0
	inStr := false
	var words []string
	var cur strings.Builder
	for i := 0; i < len(f); i++ {
		c := f[i]
		if inStr {
			if c == '\\' {
				i++
			} else if c == '"' {
				inStr = false
			}
			continue
		}
		switch c {
		case '"':
			inStr = true
			cur.WriteByte('S')
		case '(', '[', '{':
			depth++
		case ')', ']', '}':
			depth--
		case ' ':
			if depth == 0 {
				words = append(words, cur.String())
				cur.Reset()
			}
		case ',':
			if depth == 0 {
				low(PComma)
			}
		default:
			if depth == 0 {
				cur.WriteByte(c)
			}
		}
	}
	words = append(words, cur.String())
	for _, w := range words {
		switch w {
		case "|":
			low(PPipe)
		case "//":
			low(PAlt)
		case "=", "|=", "+=", "-=", "*=", "/=", "%=", "//=":
			low(PUpd)
		case "or":
			low(POr)
		case "and":
			low(PAnd)
		case "==", "!=", "<", "<=", ">", ">=":
			low(PCmp)
		case "+", "-":
			low(PAdd)
		case "*", "/", "%":
			low(PMul)
		case "as":
			low(PPipe)
		}
	}
	return prec
}

var writeFuncs = map[string]bool{"del": true, "delpaths": true, "setpath": true, "map_values": true, "with_entries": true, "walk": true, "pick": true}

var jqKeywords = map[string]bool{"if": true, "then": true, "elif": true, "else": true, "end": true, "as": true, "def": true, "reduce": true, "foreach": true, "try": true, "catch": true, "label": true, "and": true, "or": true, "null": true, "true": true, "false": true, "import": true, "include": true, "module": true, "break": true, "__loc__": true}

func isIdentStart(c byte) bool { return c >= 'a' && c <= 'z' || c >= 'A' && c <= 'Z' || c == '_' }
func isIdentChar(c byte) bool  { return isIdentStart(c) || c >= '0' && c <= '9' }

// Templates returns the source of every registered template (for self tests).
func Templates() []string {
	var out []string
	for t := Typ(0); t < nTyp; t++ {
		for _, p := range prodsByType[t] {
			out = append(out, p.src)
		}
	}
	return out
}

func (g *gen) render(p *prod, d int, dot Typ) E {
	var sb strings.Builder
	for _, s := range p.segs {
		switch s.kind {
		case 0:
			sb.WriteString(s.lit)
		case 'R':
			sb.WriteString(g.regexLit())
		case 'F':
			sb.WriteString(flagPool[g.n(len(flagPool))])
		case 'L':
			sb.WriteString(g.strLit(metaPool))
		case 'S':
			sb.WriteString(g.strLit(subjectPool))
		case 'K':
			if l, ok := g.fullStr(); ok {
				sb.WriteString(l)
			} else {
				sb.WriteString(Quote(keyPool[g.n(len(keyPool))]))
			}
		case 'k':
			sb.WriteString(identKeys[g.n(len(identKeys))])
		case 'N':
			sb.WriteString(g.smallInt())
		case 'I':
			sb.WriteString(g.idxLit())
		case 'M':
			sb.WriteString(g.numLit())
		case 'J':
			sb.WriteString(Quote(jsonTextPool[g.n(len(jsonTextPool))]))
		case 'V':
			if len(g.vars) > 0 {
				sb.WriteString(g.vars[g.n(len(g.vars))].name)
			} else {
				sb.WriteString(g.numLit())
			}
		default:
			sd := dot
			if s.dot != 0 {
				sd = typOfLetter[s.dot]
			}
			var e E
			if s.kind == 'p' {
				e = g.path(d-1, sd)
			} else if s.kind == 'u' {
				g.noComma++
				e = g.path(d-1, sd)
				g.noComma--
			} else {
				e = g.expr(typOfLetter[s.kind], d-1, sd)
			}
			sb.WriteString(g.wrap(e, s.min))
		}
	}
	for _, f := range p.feats {
		g.use(f)
	}
	return E{sb.String(), p.prec}
}

func (p *prod) weight(d int) int {
	w := p.w
	if p.dots != 0 {
		w *= 3 // productions that fit the known input type are what the typing is for
	}
	if d > 0 && !p.leaf {
		w *= 3
	}
	if p.over {
		w *= 3 // the built-ins fq redefines are what C07 is about
	}
	return w
}

// pickProd chooses a template for target type t among those applicable.
func (g *gen) pickProd(t Typ, d int, dot Typ, leafOnly, noLeaf bool) *prod {
	var cands []*prod
	tot := 0
	for _, p := range prodsByType[t] {
		if leafOnly && !p.leaf || noLeaf && p.leaf {
			continue
		}
		if p.dots != 0 && p.dots&(1<<dot) == 0 {
			continue
		}
		if p.write && g.cfg.Mode == ReadOnly {
			continue
		}
		cands = append(cands, p)
		tot += p.weight(d)
	}
	if len(cands) == 0 {
		return nil
	}
	r := g.n(tot)
	for _, p := range cands {
		w := p.weight(d)
		if r < w {
			return p
		}
		r -= w
	}
	return cands[len(cands)-1]
}

// ---------------------------------------------------------------------------
// expressions

// expr generates an expression that (probably) yields values of type t when
// its input has type dot.
func (g *gen) expr(t Typ, d int, dot Typ) E {
	g.prods++
	g.budget--
	g.seen(d)
	if d > 0 && g.chance(g.cfg.Mistype) {
		t = Typ(g.n(int(nTyp)))
	}
	if d <= 0 || g.budget <= 0 {
		return g.leaf(t, dot)
	}
	// 0 leaf, 1 template, 2 structural, 3 typed source piped into a template
	w := []int{3, 5, 5, 3}
	if d >= 2 {
		w = []int{1, 5, 6, 4}
	}
	switch g.pick(w) {
	case 0:
		return g.leaf(t, dot)
	case 1:
		tt := t
		if t == TAny {
			tt = Typ(g.n(int(nTyp)))
		}
		if p := g.pickProd(tt, d, dot, false, d >= 2); p != nil {
			return g.render(p, d, dot)
		}
		return g.leaf(t, dot)
	case 2:
		return g.structural(t, d, dot)
	default:
		src := Typ(1 + g.n(4)) // num str arr obj
		x := g.expr(src, d-1, dot)
		tt := t
		if t == TAny {
			tt = Typ(g.n(int(nTyp)))
		}
		p := g.pickProd(tt, d-1, src, false, false)
		if p == nil {
			return x
		}
		y := g.render(p, d-1, src)
		return E{g.wrap(x, PComma) + g.sp() + "|" + g.sp() + g.wrap(y, PPipe), PPipe}
	}
}

func (g *gen) leaf(t Typ, dot Typ) E {
	// variables in scope
	if len(g.vars) > 0 && g.chance(200) {
		var c []string
		for _, v := range g.vars {
			if t == TAny || v.t == t || v.t == TAny {
				c = append(c, v.name)
			}
		}
		if len(c) > 0 {
			g.use("$var")
			return E{c[g.n(len(c))], PTerm}
		}
	}
	if len(g.fns) > 0 && g.chance(150) {
		if e, ok := g.call(t, 0, dot); ok {
			return e
		}
	}
	tt := t
	if t == TAny {
		if g.chance(500) {
			return g.anyLeaf(dot)
		}
		tt = Typ(g.n(int(nTyp)))
		if tt == TAny {
			return g.anyLeaf(dot)
		}
	}
	if p := g.pickProd(tt, 0, dot, true, false); p != nil {
		return g.render(p, 0, dot)
	}
	return g.anyLeaf(dot)
}

func (g *gen) anyLeaf(dot Typ) E {
	switch g.n(16) {
	case 0, 1:
		return E{".", PTerm}
	case 2, 3:
		return E{"." + identKeys[g.n(len(identKeys))], PTerm}
	case 4:
		return E{".[" + g.idxLit() + "]", PTerm}
	case 5:
		return E{".[]?", PTerm}
	case 6:
		return E{"." + identKeys[g.n(len(identKeys))] + "?", PTerm}
	case 7:
		return E{".[" + Quote(keyPool[g.n(len(keyPool))]) + "]", PTerm}
	case 8:
		return E{"." + Quote(keyPool[g.n(len(keyPool))]), PTerm}
	case 9:
		return E{"..", PTerm}
	case 10:
		return E{"null", PTerm}
	case 11:
		return E{g.numLit(), PTerm}
	case 12:
		return E{g.strLit(subjectPool), PTerm}
	case 13:
		g.use("empty")
		return E{"empty", PTerm}
	case 14:
		return E{"." + identKeys[g.n(len(identKeys))] + "." + identKeys[g.n(len(identKeys))], PTerm}
	default:
		return E{".[]", PTerm}
	}
}

// call renders a call of a user-defined function in scope.
func (g *gen) call(t Typ, d int, dot Typ) (E, bool) {
	var c []fnInfo
	for _, f := range g.fns {
		if t == TAny || f.ret == t || f.ret == TAny {
			c = append(c, f)
		}
	}
	if len(c) == 0 {
		return E{}, false
	}
	f := c[g.n(len(c))]
	g.use("call")
	switch f.param {
	case 0:
		return E{f.name, PTerm}, true
	default:
		// the body of the function being called is not in scope of its own argument: no recursion
		arg := g.expr(TAny, d-1, dot)
		return E{f.name + "(" + arg.S + ")", PTerm}, true
	}
}

var binArith = []string{"+", "-", "*", "/", "%"}
var cmpOps = []string{"==", "!=", "<", "<=", ">", ">="}

func (g *gen) bin(l E, op string, r E, p int, lmin, rmin int) E {
	return E{g.wrap(l, lmin) + " " + op + " " + g.wrap(r, rmin), p}
}

func (g *gen) structural(t Typ, d int, dot Typ) E {
	// weights: see the cases below
	w := []int{
		8, // 0 pipe
		4, // 1 comma
		3, // 2 alternative
		4, // 3 if
		4, // 4 try/catch
		2, // 5 postfix ?
		3, // 6 bind (simple)
		3, // 7 bind destructuring
		2, // 8 ?//
		3, // 9 reduce
		3, // 10 foreach
		3, // 11 def
		2, // 12 label/break
		4, // 13 typed operator for t
		3, // 14 suffix chain
		3, // 15 limit/first/until/while/repeat/recurse
		3, // 16 assignment / update
		2, // 17 select / values filters / debug
		3, // 18 interpolation / format string
		3, // 19 object construction
		2, // 20 array construction
		2, // 21 call of user function
		0, // 22 full grammar extras
	}
	if g.cfg.Mode == ReadOnly {
		w[16] = 0
	}
	if g.cfg.Mode == Full {
		w[22] = 8
	}
	switch g.pick(w) {
	case 0:
		g.use("|")
		mid := Typ(g.n(int(nTyp)))
		x := g.expr(mid, d-1, dot)
		y := g.expr(t, d-1, mid)
		return E{g.wrap(x, PComma) + g.sp() + "|" + g.sp() + g.wrap(y, PPipe), PPipe}
	case 1:
		g.use(",")
		x := g.expr(t, d-1, dot)
		y := g.expr(t, d-1, dot)
		return E{g.wrap(x, PComma) + g.sp() + "," + g.sp() + g.wrap(y, PAlt), PComma}
	case 2:
		g.use("//")
		x := g.expr(t, d-1, dot)
		y := g.expr(t, d-1, dot)
		return g.bin(x, "//", y, PAlt, PUpd, PAlt)
	case 3:
		g.use("if")
		c := g.expr(TBool, d-1, dot)
		x := g.expr(t, d-1, dot)
		s := "if " + c.S + " then " + x.S
		if g.chance(250) {
			c2 := g.expr(TBool, d-1, dot)
			x2 := g.expr(t, d-1, dot)
			s += " elif " + c2.S + " then " + x2.S
			g.use("elif")
		}
		if !g.chance(200) {
			y := g.expr(t, d-1, dot)
			s += " else " + y.S
		}
		return E{s + " end", PUnary}
	case 4:
		g.use("try")
		x := g.expr(t, d-1, dot)
		s := "try " + g.wrap(x, PTerm)
		if !g.chance(300) {
			g.use("catch")
			var h E
			switch g.n(4) {
			case 0:
				h = g.leafLiteral(t)
			case 1:
				h = E{"type", PTerm}
			case 2:
				h = E{Quote("E"), PTerm}
			default:
				// the handler may be any expression that ignores its input
				h = g.leafLiteral(Typ(g.n(int(nTyp))))
			}
			s += " catch " + g.wrap(h, PTerm)
		}
		return E{s, PUnary}
	case 5:
		g.use("?")
		x := g.expr(t, d-1, dot)
		return E{g.wrap(x, PTerm) + "?", PTerm}
	case 6:
		g.use("as")
		vt := Typ(g.n(int(nTyp)))
		x := g.expr(vt, d-1, dot)
		name := g.of("$a", "$b", "$x", "$v")
		g.vars = append(g.vars, varInfo{name, vt})
		body := g.expr(t, d-1, dot)
		g.vars = g.vars[:len(g.vars)-1]
		return E{g.wrap(x, PTerm) + " as " + name + g.sp() + "|" + g.sp() + body.S, PPipe}
	case 7:
		g.use("as")
		g.use("destructure")
		return g.destructure(t, d, dot, false)
	case 8:
		g.use("as")
		g.use("?//")
		return g.destructure(t, d, dot, true)
	case 9:
		g.use("reduce")
		src := g.source(d-1, dot)
		name := g.of("$i", "$x", "$a")
		init := g.expr(t, d-1, dot)
		g.vars = append(g.vars, varInfo{name, TAny})
		upd := g.expr(t, d-1, t)
		g.vars = g.vars[:len(g.vars)-1]
		return E{"reduce " + g.wrap(src, PTerm) + " as " + name + " (" + init.S + ";" + g.sp() + upd.S + ")", PUnary}
	case 10:
		g.use("foreach")
		src := g.source(d-1, dot)
		name := g.of("$i", "$x", "$a")
		st := Typ(g.n(int(nTyp)))
		init := g.expr(st, d-1, dot)
		g.vars = append(g.vars, varInfo{name, TAny})
		upd := g.expr(st, d-1, st)
		s := "foreach " + g.wrap(src, PTerm) + " as " + name + " (" + init.S + ";" + g.sp() + upd.S
		if g.chance(500) {
			ext := g.expr(t, d-1, st)
			s += ";" + g.sp() + ext.S
			g.use("foreach3")
		}
		g.vars = g.vars[:len(g.vars)-1]
		return E{s + ")", PUnary}
	case 11:
		g.use("def")
		return g.def(t, d, dot)
	case 12:
		g.use("label")
		g.nlabel++
		l := "$l" + strconv.Itoa(g.nlabel%3)
		g.labels = append(g.labels, l)
		var body E
		switch g.n(3) {
		case 0:
			x := g.expr(t, d-1, dot)
			body = E{g.wrap(x, PComma) + " | ., break " + l, PPipe}
		case 1:
			x := g.expr(t, d-1, dot)
			c := g.expr(TBool, d-1, t)
			body = E{g.wrap(x, PComma) + " | if " + c.S + " then break " + l + " else . end", PPipe}
		default:
			x := g.expr(t, d-1, dot)
			body = E{g.wrap(x, PAlt) + ", break " + l, PComma}
		}
		g.labels = g.labels[:len(g.labels)-1]
		g.use("break")
		return E{"label " + l + g.sp() + "|" + g.sp() + body.S, PPipe}
	case 13:
		return g.operator(t, d, dot)
	case 14:
		g.use("suffix")
		x := g.expr(TAny, d-1, dot)
		s := g.wrap(x, PTerm)
		if s == "." {
			s = "" // .a, .[0], ."k" directly on the identity
		} else if s[0] >= '0' && s[0] <= '9' || s[0] == '-' {
			s = "(" + s + ")" // 2.a does not lex
		}
		n := 1 + g.n(3)
		for i := 0; i < n; i++ {
			if s == "" {
				switch g.n(3) {
				case 0:
					s = "." + identKeys[g.n(len(identKeys))]
				case 1:
					s = ".[" + g.idxLit() + "]"
				default:
					s = ".[]"
				}
				continue
			}
			switch g.n(9) {
			case 0, 1:
				s += "." + identKeys[g.n(len(identKeys))]
			case 2:
				s += "[" + g.idxLit() + "]"
			case 3:
				s += "[" + Quote(keyPool[g.n(len(keyPool))]) + "]"
			case 4:
				s += "[]"
			case 5:
				s += "?"
			case 6:
				s += "[" + g.idxLit() + ":" + g.of("", g.idxLit()) + "]"
			case 7:
				s += "." + Quote(keyPool[g.n(len(keyPool))])
			default:
				k := g.expr(TAny, d-2, dot)
				s += "[" + k.S + "]"
			}
		}
		return E{s, PTerm}
	case 15:
		return g.loop(t, d, dot)
	case 16:
		g.use("assign")
		g.noComma++
		p := g.path(d-1, dot)
		g.noComma--
		op := g.of("=", "|=", "+=", "-=", "*=", "/=", "%=", "//=")
		var rhs E
		if op == "|=" {
			rhs = g.expr(TAny, d-1, TAny)
		} else if op == "*=" {
			rhs = g.leafLiteral(TNum)
		} else {
			rhs = g.expr(TAny, d-1, dot)
		}
		g.use(op)
		return g.bin(p, op, rhs, PUpd, POr, POr)
	case 17:
		x := g.expr(t, d-1, dot)
		var f string
		switch g.n(6) {
		case 0:
			c := g.expr(TBool, d-1, t)
			f = "select(" + c.S + ")"
			g.use("select")
		case 1:
			f = g.of("values", "nulls", "strings", "numbers", "arrays", "objects", "scalars", "iterables", "booleans")
			g.use(f)
		case 2:
			f = "debug"
			g.use("debug")
		case 3:
			m := g.expr(TStr, d-1, t)
			f = "debug(" + m.S + ")"
			g.use("debug")
		case 4:
			f = "stderr"
			g.use("stderr")
		default:
			f = g.of("first", "last", ".[0]", "add", "min", "max", "any", "all", "flatten", "keys", "length", "not", "type", "tojson", "tostring", "ascii_downcase", "explode", "reverse", "sort", "unique", "to_entries", "tojson | fromjson", "floor", "abs", "tostream", "paths", "..", "recurse", "transpose", "from_entries", "implode", "utf8bytelength", "trim", "ltrim", "rtrim", "tonumber", "isnan", "isinfinite", "isnormal", "infinite", "nan", "fromjson", "tojson", "@json", "@text", "@csv", "@tsv", "@html", "@uri", "@sh", "@base64", "@base64d", "@base32", "@base32d", "@urid", "gmtime", "mktime", "todate", "fromdate")
			for _, w := range strings.Fields(f) {
				if w != "|" {
					g.use(w)
				}
			}
		}
		p := PTerm
		if strings.Contains(f, " | ") {
			p = PPipe
		}
		return E{g.wrap(x, PComma) + g.sp() + "|" + g.sp() + g.wrap(E{f, p}, PPipe), PPipe}
	case 18:
		g.use("interp")
		var sb strings.Builder
		f := ""
		if g.chance(400) {
			f = g.of("@json", "@text", "@csv", "@tsv", "@html", "@uri", "@sh", "@base64", "@base64d", "@base32", "@base32d", "@urid")
			g.use(f)
			sb.WriteString(f + " ")
		}
		sb.WriteByte('"')
		n := 1 + g.n(3)
		for i := 0; i < n; i++ {
			sb.WriteString(g.of("", "x", " ", "é", "\\n", "\\\"", "a,b", "<&>", "'", "\\\\", "\\u00e9", "%"))
			if g.cfg.Mode == Full && g.chance(200) {
				// raw characters between the interpolations
				q := g.rawQuote(rawPool[g.n(len(rawPool))])
				sb.WriteString(q[1 : len(q)-1])
			}
			x := g.expr(TAny, d-1, dot)
			sb.WriteString("\\(" + x.S + ")")
		}
		sb.WriteString(g.of("", "y", "!"))
		sb.WriteByte('"')
		return E{sb.String(), PTerm}
	case 19:
		return g.object(d, dot)
	case 20:
		g.use("[]")
		if g.chance(100) {
			return E{"[]", PTerm}
		}
		x := g.expr(TAny, d-1, dot)
		return E{"[" + x.S + "]", PTerm}
	case 22:
		return g.fullExtra(t, d, dot)
	default:
		if e, ok := g.call(t, d, dot); ok {
			return e
		}
		return g.leaf(t, dot)
	}
}

// fullExtra: syntax the parser accepts that the typed productions do not
// produce (Full mode).
func (g *gen) fullExtra(t Typ, d int, dot Typ) E {
	g.use("full-extra")
	sub := func() E { return g.expr(TAny, d-1, dot) }
	k := g.n(30)
	if k >= 24 {
		k = 18 // operator chains are what the printer has to get right
	}
	switch k {
	case 0:
		return E{"+" + g.wrap(sub(), PUnary), PUnary}
	case 1:
		return E{"-" + g.wrap(sub(), PUnary), PUnary}
	case 2:
		return E{"..?", PTerm}
	case 3:
		return E{g.of(".a.[0]", ".a.[\"b\"]", ".[\"a\"].b", ".a.\"b\"", ".\"a\".\"b\"", ".a[]?", ".a??", ".[]?.a", ".a[1:2]", ".a[:2]", ".a[1:]", ".[1:][0]", ".\"a\\(1)\"", ".[\"a\\(.)\"]?", ".a.b.c", ".a?.b?", ". [0]", ".[.a]", ".[.[0]:.[1]]"), PTerm}
	case 4:
		return E{"try " + g.wrap(sub(), PTerm), PUnary}
	case 5:
		x, y := sub(), sub()
		return E{"try " + g.wrap(x, PTerm) + " catch " + g.wrap(y, PTerm), PUnary}
	case 6:
		// try binds tighter than any operator: the printer must keep it that way
		x, y := sub(), sub()
		op := g.of("+", "|", ",", "//", "and", "==", "/", "-", "or", "<")
		return E{"try " + g.wrap(x, PTerm) + " " + op + " " + g.wrap(y, PTerm), PPipe}
	case 7:
		x, y, z := sub(), sub(), sub()
		op := g.of("+", "|", ",", "//", "and", "==", "/")
		return E{"try " + g.wrap(x, PTerm) + " catch " + g.wrap(y, PTerm) + " " + op + " " + g.wrap(z, PTerm), PPipe}
	case 8:
		c, x := sub(), sub()
		return E{"if " + c.S + " then " + x.S + " end", PUnary}
	case 9:
		return E{g.of("@base64", "@json", "@text", "@csv", "@sh", "@uri", "@html", "@base32d") + " " + "\"" + g.of("", "a", "\\(.)", "a\\(1 + 2)b\\(\"x\\(3)\")", "\\(.a | tostring)") + "\"", PTerm}
	case 10:
		return E{g.of("$__loc__", "$ENV", "$__prog_args", "$foo::bar", "foo::bar", "foo::bar(1; .)", "{$__loc__}", "{$v}"), PTerm}
	case 11:
		x := sub()
		return E{"def f(a; $b; c): a + $b + c; f(" + x.S + "; 1; .)", PPipe}
	case 12:
		x := sub()
		return E{"def f: def g: def h: " + x.S + "; h; g; f", PPipe}
	case 13:
		x, y := sub(), sub()
		return E{"def f: " + x.S + "; def g: " + y.S + "; f | g", PPipe}
	case 14:
		x := sub()
		return E{"reduce " + g.of("limit(3; .[])", "range(3)", "(1,2)", "limit(4; .[]?)", "empty", "first(.[]?)") + " as " + g.of("$x", "[$a, $b]", "{a: $a}", "{$a, b: [$b]}") + " (" + g.of("0", "null", ".", "[]") + "; " + x.S + ")", PUnary}
	case 15:
		x, y := sub(), sub()
		return E{"foreach " + g.of("limit(3; .[])", "range(3)", "(1,2)") + " as " + g.of("$x", "[$a, $b]", "{a: $a}") + " (" + g.of("0", "null", ".") + "; " + x.S + g.of("", "; "+y.S) + ")", PUnary}
	case 16:
		x := sub()
		return E{"label $out | " + x.S + " | ., break $out", PPipe}
	case 17:
		x, y := sub(), sub()
		return E{g.wrap(x, PTerm) + " as " + g.of("[$a]", "{a: $a}", "$a", "[[$a]]", "{\"k\": $a}", "{(\"a\"): $a}", "{$a: [$a]}") + " ?// " + g.of("$a", "[$a]", "{$a}") + " | " + y.S, PPipe}
	case 18:
		// every binary operator once, left to right: associativity and precedence must survive
		ops := []string{"|", ",", "//", "or", "and", "or", "and", "==", "!=", "<", "<=", ">", ">=", "+", "-", "*", "/", "%"}
		n := 2 + g.n(4)
		s := g.wrap(g.leaf(TAny, dot), PTerm)
		for i := 0; i < n; i++ {
			op := ops[g.n(len(ops))]
			o := g.leaf(TAny, dot)
			if g.chance(300) {
				o = sub()
			}
			if op == "*" {
				// string repetition by a computed count allocates without bound
				o = E{g.of("0", "1", "2", "3", "-1", "0.5", "{}", "null"), PTerm}
			}
			s += " " + op + " " + g.wrap(o, PTerm)
		}
		// comparison operators are non associative: a == b == c does not parse; callers discard parse errors
		return E{s, PPipe}
	case 19:
		// left side: a path without `a, b` (see noComma)
		g.noComma++
		x := g.path(d-1, dot)
		g.noComma--
		y := sub()
		op := g.of("=", "|=", "+=", "-=", "*=", "/=", "%=", "//=")
		if op == "*=" {
			y = E{g.of("0", "1", "2", "3", "0.5", "{}"), PTerm}
		}
		return g.bin(x, op, y, PUpd, POr, POr)
	case 20:
		x := sub()
		return E{"{" + g.of("a", "\"a\"", "\"a\\(1)\"", "(\"a\")", "$__loc__", "if", "and", "$v") + ": " + g.wrap(x, PAlt) + g.of("", ",", ", b", ", \"c\"", ", $__loc__", ", \"d\\(1)\"") + "}", PTerm}
	case 21:
		x := sub()
		return E{g.wrap(x, PTerm) + g.of("[]", "[]?", "?", "??", ".a", "[0]", "[1:]", "[:1]", "[1:2]", ".\"a\"", "[\"a\"]", ".[0]", ".[]", "[.]") + g.of("", "", ".b", "[]", "?"), PTerm}
	case 22:
		return E{g.of("1.5e3", "1e-2", ".5", "0.5", "1.", "1.e2", "100000000000000000000", "0x10", "0b101", "0o17", "0xFF_FF", "0b1_0_1", "0o1_7") + "", PTerm}
	default:
		x := sub()
		return E{"\"a\\(" + x.S + ")b\\(\"c\\(" + g.leaf(TAny, dot).S + ")\")\"", PTerm}
	}
}

// directives renders a module header and imports (parse-only syntax).
func (g *gen) directives() string {
	var sb strings.Builder
	if g.chance(400) {
		sb.WriteString("module " + g.of("{}", "{a: 1}", `{"a": [1, null, "s", {"b": true}], c: false}`, "{version: 1.5,}") + ";" + g.of(" ", "\n"))
	}
	n := g.n(3)
	for i := 0; i < n; i++ {
		switch g.n(5) {
		case 0:
			sb.WriteString(`import "m` + strconv.Itoa(i) + `" as m` + strconv.Itoa(i) + ";")
		case 1:
			sb.WriteString(`import "d` + strconv.Itoa(i) + `" as $d` + strconv.Itoa(i) + ";")
		case 2:
			sb.WriteString(`include "i` + strconv.Itoa(i) + `";`)
		case 3:
			sb.WriteString(`include "i` + strconv.Itoa(i) + `" {search: "./"};`)
		default:
			sb.WriteString(`import "m` + strconv.Itoa(i) + `" as m` + strconv.Itoa(i) + ` {"search": ["a", "b"], raw: true};`)
		}
		sb.WriteString(g.of(" ", "\n", ""))
	}
	if sb.Len() == 0 {
		sb.WriteString(`include "i";` + " ")
	}
	return sb.String()
}

// leafLiteral returns a literal of the wanted type.
func (g *gen) leafLiteral(t Typ) E {
	switch t {
	case TNum:
		return E{g.numLit(), PTerm}
	case TStr:
		return E{g.strLit(subjectPool), PTerm}
	case TArr:
		return E{g.of("[]", "[1,2,3]", `["a","b"]`, "[null]", "[[1],[2,3]]", `[{"a":1},{"a":2}]`), PTerm}
	case TObj:
		return E{g.of("{}", `{"a":1}`, `{"a":{"b":2},"c":[1]}`, `{"b":2,"a":1}`, `{"k":"v"}`), PTerm}
	case TBool:
		return E{g.of("true", "false"), PTerm}
	default:
		return E{g.of("null", "1", `"x"`, "[]", "{}", "true"), PTerm}
	}
}

// source is a short finite generator used by reduce / foreach.  At most a
// handful of items: an update that multiplies the size of its state (tojson of
// paths of the state, . + .) must not get dozens of rounds, no time limit stops
// a single huge allocation.
func (g *gen) source(d int, dot Typ) E {
	switch g.n(8) {
	case 0:
		g.use("limit")
		return E{"limit(4; .[]?)", PTerm}
	case 1:
		g.use("range")
		return E{"range(" + g.smallInt() + ")", PTerm}
	case 2:
		g.use("range")
		return E{"range(" + g.smallInt() + "; " + g.of("3", "5", "0", "-1") + g.of("", "", "; 2", "; -1", "; 0.5") + ")", PTerm}
	case 3:
		return E{"(1, 2, 3)", PTerm}
	case 4:
		g.use("limit")
		x := g.expr(TArr, d, dot)
		return E{"limit(3; " + g.wrap(x, PTerm) + "[])", PTerm}
	case 5:
		x := g.expr(TAny, d, dot)
		y := g.expr(TAny, d, dot)
		g.use("limit")
		return E{"limit(4; " + g.wrap(x, PComma) + ", " + g.wrap(y, PAlt) + ")", PTerm}
	case 6:
		g.use("limit")
		return E{"limit(" + g.of("2", "3", "4") + "; ..)", PTerm}
	default:
		g.use("limit")
		x := g.expr(TAny, d, dot)
		return E{"limit(" + g.of("1", "2", "3") + "; " + x.S + ")", PTerm}
	}
}

func (g *gen) operator(t Typ, d int, dot Typ) E {
	switch t {
	case TNum:
		op := binArith[g.n(len(binArith))]
		g.use(op)
		x := g.expr(TNum, d-1, dot)
		var y E
		if op == "*" {
			// string repetition by a computed count can allocate without bound
			y = E{g.of("0", "1", "2", "3", "-1", "0.5", "1.5"), PTerm}
		} else {
			y = g.expr(TNum, d-1, dot)
		}
		if op == "+" || op == "-" {
			if g.chance(150) {
				g.use("neg")
				return E{"-" + g.wrap(x, PUnary), PUnary}
			}
			return g.bin(x, op, y, PAdd, PAdd, PMul)
		}
		return g.bin(x, op, y, PMul, PMul, PUnary)
	case TStr:
		x := g.expr(TStr, d-1, dot)
		if g.chance(200) {
			g.use("*")
			return g.bin(x, "*", E{g.of("0", "1", "2", "3", "0.5", "-1"), PTerm}, PMul, PMul, PUnary)
		}
		if g.chance(150) {
			g.use("/")
			y := g.expr(TStr, d-1, dot)
			return g.bin(x, "/", y, PMul, PMul, PUnary)
		}
		g.use("+")
		y := g.expr(TStr, d-1, dot)
		return g.bin(x, "+", y, PAdd, PAdd, PMul)
	case TArr:
		op := g.of("+", "-", "+")
		g.use(op)
		x := g.expr(TArr, d-1, dot)
		y := g.expr(TArr, d-1, dot)
		return g.bin(x, op, y, PAdd, PAdd, PMul)
	case TObj:
		x := g.expr(TObj, d-1, dot)
		y := g.expr(TObj, d-1, dot)
		if g.chance(400) {
			g.use("*")
			return g.bin(x, "*", y, PMul, PMul, PUnary)
		}
		g.use("+")
		return g.bin(x, "+", y, PAdd, PAdd, PMul)
	case TBool:
		switch g.n(4) {
		case 0:
			g.use("and")
			x := g.expr(TBool, d-1, dot)
			y := g.expr(TBool, d-1, dot)
			return g.bin(x, "and", y, PAnd, PAnd, PCmp)
		case 1:
			g.use("or")
			x := g.expr(TBool, d-1, dot)
			y := g.expr(TBool, d-1, dot)
			return g.bin(x, "or", y, POr, POr, PAnd)
		default:
			op := cmpOps[g.n(len(cmpOps))]
			g.use(op)
			ot := Typ(g.n(int(nTyp)))
			x := g.expr(ot, d-1, dot)
			y := g.expr(ot, d-1, dot)
			return g.bin(x, op, y, PCmp, PAdd, PAdd)
		}
	default:
		// any: an operator over operands of unrelated types
		ops := []string{"+", "-", "/", "%", "==", "<", "and", "or", "//", "!=", ">="}
		op := ops[g.n(len(ops))]
		g.use(op)
		x := g.expr(TAny, d-1, dot)
		y := g.expr(TAny, d-1, dot)
		switch op {
		case "+", "-":
			return g.bin(x, op, y, PAdd, PAdd, PMul)
		case "/", "%":
			return g.bin(x, op, y, PMul, PMul, PUnary)
		case "and":
			return g.bin(x, op, y, PAnd, PAnd, PCmp)
		case "or":
			return g.bin(x, op, y, POr, POr, PAnd)
		case "//":
			return g.bin(x, op, y, PAlt, PUpd, PAlt)
		default:
			return g.bin(x, op, y, PCmp, PAdd, PAdd)
		}
	}
}

func (g *gen) loop(t Typ, d int, dot Typ) E {
	switch g.n(9) {
	case 0:
		g.use("limit")
		x := g.expr(t, d-1, dot)
		return E{"limit(" + g.of("0", "1", "2", "3", "-1") + "; " + x.S + ")", PTerm}
	case 1:
		g.use("first")
		x := g.expr(t, d-1, dot)
		return E{"first(" + x.S + ")", PTerm}
	case 2:
		g.use("until")
		// always terminates: length shrinks, or the slice fails
		return E{"until(length < 2; .[1:])", PTerm}
	case 3:
		g.use("until")
		return E{"(" + g.smallInt() + " | until(. >= " + g.of("3", "5") + "; . + 1))", PTerm}
	case 4:
		g.use("while")
		return E{"[limit(5; while(length > 0; .[1:]))]", PTerm}
	case 5:
		g.use("repeat")
		return E{"[limit(" + g.smallInt() + "; repeat(" + g.leafLiteral(t).S + "))]", PTerm}
	case 6:
		g.use("recurse")
		f := g.expr(TAny, d-1, TAny)
		return E{"[limit(" + g.of("2", "3", "4") + "; recurse(" + f.S + "))]", PTerm}
	case 7:
		g.use("recurse")
		c := g.expr(TBool, d-1, TAny)
		return E{"[recurse(.[]?; " + c.S + ")]", PTerm}
	default:
		g.use("nth")
		x := g.expr(t, d-1, dot)
		switch g.n(5) {
		case 0:
			return E{"nth(" + g.smallInt() + "; " + x.S + ")", PTerm}
		case 1:
			g.use("skip")
			return E{"skip(" + g.smallInt() + "; " + x.S + ")", PTerm}
		case 2:
			g.use("isempty")
			return E{"isempty(" + x.S + ")", PTerm}
		case 3:
			g.use("limit")
			return E{"[limit(2; " + x.S + ")]", PTerm}
		default:
			g.use("add")
			return E{"add(" + x.S + ")", PTerm}
		}
	}
}

func (g *gen) pattern(d int, bound *[]string) string {
	name := func() string {
		n := g.of("$a", "$b", "$c", "$x", "$y")
		*bound = append(*bound, n)
		return n
	}
	if d <= 0 {
		return name()
	}
	switch g.n(5) {
	case 0:
		return name()
	case 1, 2:
		n := 1 + g.n(3)
		var ps []string
		for i := 0; i < n; i++ {
			ps = append(ps, g.pattern(d-1, bound))
		}
		return "[" + strings.Join(ps, ", ") + "]"
	default:
		n := 1 + g.n(3)
		var ps []string
		for i := 0; i < n; i++ {
			switch g.n(6) {
			case 0:
				ps = append(ps, name())
			case 1:
				ps = append(ps, Quote(keyPool[g.n(len(keyPool))])+": "+g.pattern(d-1, bound))
			case 2:
				ps = append(ps, "("+g.of(`"a"`, `"b"`, `"a" + "b"`, `"k", "a"`)+"): "+g.pattern(d-1, bound))
			case 3:
				ps = append(ps, name()+": "+g.pattern(d-1, bound))
			default:
				ps = append(ps, identKeys[g.n(len(identKeys))]+": "+g.pattern(d-1, bound))
			}
		}
		return "{" + strings.Join(ps, ", ") + "}"
	}
}

func (g *gen) destructure(t Typ, d int, dot Typ, alt bool) E {
	x := g.expr(TAny, d-1, dot)
	var bound []string
	var pat string
	if alt {
		// every alternative binds the same variables: the embedded engine leaves the
		// variables of alternatives that did not match uninitialised (they read dead
		// call frames), so a program that uses one has no defined reference result
		bound = []string{g.of("$a", "$x")}
		if g.chance(500) {
			bound = append(bound, g.of("$b", "$y"))
		}
		n := 2 + g.n(2)
		var alts []string
		for i := 0; i < n; i++ {
			alts = append(alts, g.sameVarsPattern(bound))
		}
		pat = strings.Join(alts, " ?// ")
	} else {
		pat = g.pattern(1+g.n(2), &bound)
	}
	mark := len(g.vars)
	for _, b := range bound {
		g.vars = append(g.vars, varInfo{b, TAny})
	}
	body := g.expr(t, d-1, dot)
	g.vars = g.vars[:mark]
	return E{g.wrap(x, PTerm) + " as " + pat + g.sp() + "|" + g.sp() + body.S, PPipe}
}

// sameVarsPattern renders a destructuring pattern that binds exactly vars.
func (g *gen) sameVarsPattern(vars []string) string {
	a := vars[0]
	if len(vars) == 1 {
		return g.of(a, "["+a+"]", "{a: "+a+"}", "{"+a+"}", "[["+a+"]]", "{\"k\": "+a+"}", "{(\"a\", \"b\"): "+a+"}")
	}
	b := vars[1]
	return g.of("["+a+", "+b+"]", "{a: "+a+", b: "+b+"}", "{"+a+", "+b+"}", "["+a+", ["+b+"]]", "{a: ["+a+", "+b+"]}", "{"+a+", \"k\": {"+b+"}}", "["+b+", "+a+"]")
}

func (g *gen) def(t Typ, d int, dot Typ) E {
	g.nfn++
	name := "f" + strconv.Itoa(g.nfn)
	bt := t
	if g.chance(300) {
		bt = Typ(g.n(int(nTyp)))
	}
	kind := g.n(4)
	var head string
	mark := len(g.fns)
	vmark := len(g.vars)
	switch kind {
	case 0, 1:
		head = "def " + name + ":"
	case 2:
		// the parameter name must differ from every function a template defines
		// (f, g, h): `def g: g ...` would recurse for ever
		head = "def " + name + "(cb):"
		g.fns = append(g.fns, fnInfo{"cb", TAny, 0})
	default:
		head = "def " + name + "($p):"
		g.vars = append(g.vars, varInfo{"$p", TAny})
	}
	body := g.expr(bt, d-1, TAny)
	g.fns = g.fns[:mark]
	g.vars = g.vars[:vmark]
	param := 0
	if kind == 2 {
		param = 1
	} else if kind == 3 {
		param = 2
	}
	g.fns = append(g.fns, fnInfo{name, bt, param})
	var rest E
	if g.chance(600) {
		// make sure the function is used
		c, _ := g.call(TAny, d-1, dot)
		if g.chance(500) {
			r := g.expr(t, d-1, bt)
			rest = E{g.wrap(c, PComma) + " | " + r.S, PPipe}
		} else {
			rest = c
		}
	} else {
		rest = g.expr(t, d-1, dot)
	}
	g.fns = g.fns[:mark]
	return E{head + " " + body.S + ";" + g.sp() + rest.S, PPipe}
}

func (g *gen) object(d int, dot Typ) E {
	g.use("{}")
	n := g.n(4)
	if n == 0 {
		return E{"{}", PTerm}
	}
	var kvs []string
	for i := 0; i < n; i++ {
		var k string
		short := false
		switch g.n(9) {
		case 0, 1:
			k = identKeys[g.n(len(identKeys))]
			short = g.chance(200)
		case 2:
			if l, ok := g.fullStr(); ok {
				k = l
			} else {
				k = Quote(keyPool[g.n(len(keyPool))])
			}
			short = g.chance(100)
		case 3:
			ke := g.expr(TStr, d-1, dot)
			k = "(" + ke.S + ")"
		case 4:
			if len(g.vars) > 0 {
				k = g.vars[g.n(len(g.vars))].name
				short = g.chance(700)
			} else {
				k = "b"
			}
		case 5:
			ke := g.expr(TAny, d-1, dot)
			k = "\"k\\(" + ke.S + ")\""
		case 6:
			if g.cfg.Mode == Full {
				k = g.of("if", "then", "and", "or", "def", "reduce", "null", "true", "end", "as", "try", "__loc__")
			} else {
				k = g.of("if", "and", "null", "end")
			}
		case 7:
			if g.cfg.Mode == Full {
				k = g.of("@base64", "$__loc__")
				if k == "@base64" {
					k = "a"
				}
				short = k == "$__loc__"
			} else {
				k = "c"
			}
		default:
			k = Quote(g.of("a", "b", "x y"))
		}
		if short {
			kvs = append(kvs, k)
			continue
		}
		v := g.expr(TAny, d-1, dot)
		if v.P >= PAlt && g.chance(150) {
			// objectval: objectval '|' objectval
			v2 := g.expr(TAny, d-1, TAny)
			kvs = append(kvs, k+":"+g.sp()+v.S+" | "+g.wrap(v2, PAlt))
			g.use("objval-pipe")
			continue
		}
		kvs = append(kvs, k+":"+g.sp()+g.wrap(v, PAlt))
	}
	s := "{" + strings.Join(kvs, ","+g.sp())
	if g.cfg.Mode == Full && g.chance(100) {
		s += ","
	}
	return E{s + "}", PTerm}
}

// path generates a path expression (usable in path(), del(), assignment).
func (g *gen) path(d int, dot Typ) E {
	g.prods++
	g.budget--
	g.seen(d)
	if d <= 0 || g.budget <= 0 {
		return E{g.of(".", ".a", ".b", ".[0]", ".[]?", ".a.b", ".[1:]", ".c?", ".[-1]", "..", ".a[0]", ".[\"k 1\"]", ".[]", "first", "last", ".a[]?", ".[:1]"), PTerm}
	}
	switch g.n(12) {
	case 0, 1:
		x := g.path(d-1, dot)
		y := g.path(d-1, TAny)
		return E{g.wrap(x, PComma) + " | " + y.S, PPipe}
	case 2:
		if g.noComma > 0 {
			return g.path(0, dot)
		}
		x := g.path(d-1, dot)
		y := g.path(d-1, dot)
		return E{g.wrap(x, PComma) + ", " + g.wrap(y, PAlt), PComma}
	case 3:
		g.use("select")
		x := g.path(d-1, dot)
		c := g.expr(TBool, d-1, TAny)
		return E{g.wrap(x, PComma) + " | select(" + c.S + ")", PPipe}
	case 4:
		x := g.path(d-1, dot)
		y := g.path(d-1, dot)
		g.use("//")
		return g.bin(x, "//", y, PAlt, PUpd, PAlt)
	case 5:
		g.use("if")
		c := g.expr(TBool, d-1, dot)
		x := g.path(d-1, dot)
		y := g.path(d-1, dot)
		return E{"if " + c.S + " then " + x.S + " else " + y.S + " end", PUnary}
	case 6:
		g.use("getpath")
		return E{"getpath(" + g.of(`["a"]`, `["a","b"]`, `[0]`, `["a",0]`, `[]`, `["c","a","b"]`) + ")", PTerm}
	case 7:
		g.use("first")
		x := g.path(d-1, dot)
		return E{g.of("first(", "limit(1; ", "limit(2; ") + x.S + ")", PTerm}
	case 8:
		k := g.expr(TStr, d-1, dot)
		return E{".[" + k.S + "]", PTerm}
	case 9:
		x := g.path(d-1, dot)
		return E{g.wrap(x, PTerm) + "?", PTerm}
	case 10:
		g.use("recurse")
		return E{g.of("recurse", "..", "recurse(.[]?)", ".. | numbers", ".. | strings", ".[]? | objects", "paths as $p | getpath($p)"), PPipe}
	default:
		return g.path(0, dot)
	}
}

// fullWrap adds program-level syntax of the full grammar.
func (g *gen) fullWrap(text string) string {
	switch g.n(12) {
	case 0:
		return " " + text + " "
	case 1:
		return "# leading comment\n" + text
	case 2:
		return text + " # trailing comment"
	case 3:
		return "\n\t" + text + "\n"
	default:
		return text
	}
}
