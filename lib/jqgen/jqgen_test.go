package jqgen

import (
	"fmt"
	"os"
	"sort"
	"strings"
	"testing"

	"github.com/wader/gojq"
	"pgregory.net/rapid"
)

const prelude = "def debug: .; def debug(f): (f | empty), .; def stderr: .; "

// every template must instantiate to a program the reference engine compiles
func TestTemplatesCompile(t *testing.T) {
	bad := 0
	rapid.Check(t, func(rt *rapid.T) {
		for ty := Typ(0); ty < nTyp; ty++ {
			for _, p := range prodsByType[ty] {
				g := &gen{rt: rt, cfg: Config{MaxDepth: 2, Budget: 10}, budget: 10, feat: map[string]struct{}{}}
				g.vars = []varInfo{{"$v", TAny}}
				e := g.render(p, 1, TAny)
				prog := prelude + "1 as $v | " + e.S
				q, err := gojq.Parse(prog)
				if err != nil {
					bad++
					t.Errorf("template %q -> %q: parse: %v", p.src, e.S, err)
					continue
				}
				if _, err := gojq.Compile(q); err != nil {
					bad++
					t.Errorf("template %q -> %q: compile: %v", p.src, e.S, err)
				}
			}
		}
	})
}

func TestGenStats(t *testing.T) {
	feats := map[string]int{}
	n, parseErr, compErr := 0, 0, 0
	lens := 0
	rapid.Check(t, func(rt *rapid.T) {
		p := Gen(rt, Config{})
		n++
		lens += len(p.Text)
		q, err := gojq.Parse(prelude + p.Text)
		if err != nil {
			parseErr++
			t.Errorf("parse error: %v\n%s", err, p.Text)
			return
		}
		if _, err := gojq.Compile(q); err != nil {
			compErr++
			if compErr < 5 {
				t.Logf("compile error: %v\n%s", err, p.Text)
			}
		}
		for _, f := range p.Features {
			feats[f]++
		}
		if os.Getenv("JQGEN_SHOW") != "" && n%7 == 0 {
			fmt.Println(p.Text)
		}
	})
	var ks []string
	for k := range feats {
		ks = append(ks, k)
	}
	sort.Slice(ks, func(i, j int) bool { return feats[ks[i]] > feats[ks[j]] })
	var sb strings.Builder
	for _, k := range ks {
		fmt.Fprintf(&sb, "%s=%d ", k, feats[k])
	}
	t.Logf("n=%d parseErr=%d compErr=%d avglen=%d\n%s", n, parseErr, compErr, lens/max(n, 1), sb.String())
}

func TestFullParses(t *testing.T) {
	n, parseErr := 0, 0
	rapid.Check(t, func(rt *rapid.T) {
		p := Gen(rt, Config{Mode: Full, ExtraParens: 100, Sloppy: 50, Directives: 100})
		n++
		if _, err := gojq.Parse(p.Text); err != nil {
			parseErr++
			if os.Getenv("JQGEN_SHOW") != "" {
				t.Logf("parse error: %v\n%s", err, p.Text)
			}
		}
	})
	t.Logf("n=%d parseErr=%d", n, parseErr)
	// non-associative operator chains and dropped parentheses are generated on purpose
	if parseErr*20 > n {
		t.Errorf("too many programs do not parse: %d of %d", parseErr, n)
	}
}
