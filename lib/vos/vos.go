// Package vos is a virtual interp.OS: in-memory files, directories, missing
// files, captured stdout/stderr, harness-owned interrupt channel and a scripted
// Readline.  It lets the checks drive the whole fq CLI in-process.
package vos

import (
	"bytes"
	"context"
	"errors"
	"io"
	"io/fs"
	"sort"
	"strings"
	"sync"
	"syscall"
	"time"

	"github.com/wader/fq/pkg/interp"
)

type SyncBuf struct {
	mu sync.Mutex
	b  bytes.Buffer
}

func (s *SyncBuf) Write(p []byte) (int, error) {
	s.mu.Lock()
	defer s.mu.Unlock()
	return s.b.Write(p)
}
func (s *SyncBuf) String() string {
	s.mu.Lock()
	defer s.mu.Unlock()
	return s.b.String()
}
func (s *SyncBuf) Bytes() []byte {
	s.mu.Lock()
	defer s.mu.Unlock()
	return append([]byte(nil), s.b.Bytes()...)
}
func (s *SyncBuf) Len() int {
	s.mu.Lock()
	defer s.mu.Unlock()
	return s.b.Len()
}

type OS struct {
	ArgsV      []string
	Files      map[string][]byte
	Dirs       map[string]bool
	StdinData  []byte
	StdinTTY   bool
	StdoutTTY  bool
	Width      int
	Height     int
	Env        []string
	Out        SyncBuf
	Err        SyncBuf
	Interrupt  chan struct{}
	ReadlineFn func(opts interp.ReadlineOpts) (string, error)
	stdinOnce  sync.Once
	stdinR     *bytes.Reader
}

func New(args ...string) *OS {
	return &OS{
		ArgsV: append([]string{"fq"}, args...),
		Files: map[string][]byte{},
		Dirs:  map[string]bool{},
		Width: 135, Height: 25,
		Env: []string{"NO_COLOR=1", "NO_DECODE_PROGRESS=1", "COMPLETION_TIMEOUT=10"},
	}
}

type input struct {
	interp.FileReader
	tty  bool
	w, h int
}

func (i input) Size() (int, int) { return i.w, i.h }
func (i input) IsTerminal() bool { return i.tty }

type output struct {
	io.Writer
	tty  bool
	w, h int
}

func (o output) Size() (int, int) { return o.w, o.h }
func (o output) IsTerminal() bool { return o.tty }

func (o *OS) Platform() interp.Platform {
	return interp.Platform{OS: "verifos", Arch: "verifarch", GoVersion: "verifgo"}
}

func (o *OS) Stdin() interp.Input {
	o.stdinOnce.Do(func() { o.stdinR = bytes.NewReader(o.StdinData) })
	// non-seekable on purpose (only Read is exposed through a plain io.Reader)
	return input{FileReader: interp.FileReader{R: struct{ io.Reader }{o.stdinR}, FileInfo: interp.FixedFileInfo{FName: "stdin", FMode: fs.ModeIrregular}},
		tty: o.StdinTTY, w: o.Width, h: o.Height}
}
func (o *OS) Stdout() interp.Output { return output{Writer: &o.Out, tty: o.StdoutTTY, w: o.Width, h: o.Height} }
func (o *OS) Stderr() interp.Output { return output{Writer: &o.Err, w: o.Width, h: o.Height} }
func (o *OS) InterruptChan() chan struct{} { return o.Interrupt }
func (o *OS) Args() []string               { return o.ArgsV }
func (o *OS) Environ() []string            { return o.Env }
func (o *OS) ConfigDir() (string, error)   { return "/config", nil }
func (o *OS) FS() fs.FS                    { return vfs{o} }
func (o *OS) History() ([]string, error)   { return nil, nil }
func (o *OS) Readline(opts interp.ReadlineOpts) (string, error) {
	if o.ReadlineFn != nil {
		return o.ReadlineFn(opts)
	}
	return "", io.EOF
}

type vfs struct{ o *OS }

type memFile struct {
	*io.SectionReader
	name string
	size int64
}

func (m memFile) Stat() (fs.FileInfo, error) {
	return interp.FixedFileInfo{FName: m.name, FSize: m.size}, nil
}
func (memFile) Close() error { return nil }

type dirFile struct{ name string }

func (d dirFile) Stat() (fs.FileInfo, error) {
	return interp.FixedFileInfo{FName: d.name, FMode: fs.ModeDir | 0o755, FIsDir: true}, nil
}
func (d dirFile) Read([]byte) (int, error) {
	return 0, &fs.PathError{Op: "read", Path: d.name, Err: syscall.EISDIR}
}
func (dirFile) Close() error { return nil }

// Seek: an opened directory is seekable on a real OS (*os.File implements
// io.Seeker and lseek succeeds on Linux); code that decides "seekable, do not
// read into memory" from the file mode alone (seed C17-6) must meet the same
// here as with a real directory
func (dirFile) Seek(offset int64, whence int) (int64, error) {
	if whence == io.SeekEnd {
		return 0, nil
	}
	return offset, nil
}

func (v vfs) Open(name string) (fs.File, error) {
	if b, ok := v.o.Files[name]; ok {
		return memFile{SectionReader: io.NewSectionReader(bytes.NewReader(b), 0, int64(len(b))), name: name, size: int64(len(b))}, nil
	}
	if v.o.Dirs[name] {
		return dirFile{name}, nil
	}
	return nil, &fs.PathError{Op: "open", Path: name, Err: syscall.ENOENT}
}

// Result of one in-process CLI run.
type Result struct {
	Exit    int
	Stdout  []byte
	Stderr  string
	Err     error
	Timeout bool
}

// Run executes fq's Main in-process with this OS.  A Go panic escaping Main is
// returned to the caller as a panic (callers that check totality recover it).
func (o *OS) Run(ctx context.Context, reg *interp.Registry) Result {
	i, err := interp.New(o, reg)
	if err != nil {
		return Result{Exit: 1, Err: err}
	}
	defer i.Stop()
	err = i.Main(ctx, o.Stdout(), "verif")
	res := Result{Stdout: o.Out.Bytes(), Stderr: o.Err.String(), Err: err}
	if err != nil {
		res.Exit = 1
		var ex interp.Exiter
		if errors.As(err, &ex) {
			res.Exit = ex.ExitCode()
		}
	}
	return res
}

// RunTimeout is Run with a deadline; on expiry the context is cancelled and
// Timeout is set (inconclusive, never a verdict).
func (o *OS) RunTimeout(reg *interp.Registry, d time.Duration) Result {
	ctx, cancel := context.WithTimeout(context.Background(), d)
	defer cancel()
	done := make(chan Result, 1)
	var pv any
	go func() {
		defer func() {
			if r := recover(); r != nil {
				pv = r
				done <- Result{Exit: -1}
			}
		}()
		done <- o.Run(ctx, reg)
	}()
	select {
	case r := <-done:
		if pv != nil {
			panic(pv)
		}
		if ctx.Err() != nil {
			r.Timeout = true
		}
		return r
	case <-time.After(d + 5*time.Second):
		return Result{Exit: -1, Timeout: true}
	}
}

func SortedKeys(m map[string][]byte) []string {
	ks := make([]string, 0, len(m))
	for k := range m {
		ks = append(ks, k)
	}
	sort.Strings(ks)
	return ks
}

func Lines(b []byte) []string {
	s := strings.TrimSuffix(string(b), "\n")
	if s == "" {
		return nil
	}
	return strings.Split(s, "\n")
}
