package treegen

import (
	"encoding/hex"
	"fmt"
	"sort"
	"sync"

	"github.com/wader/fq/pkg/decode"
	"github.com/wader/fq/pkg/ranges"
)

// The reference interpreter: it runs a Program over its own model of "a
// decoder positioned in a buffer window" and predicts the whole tree.  It
// shares no code with fq: positions are absolute bit offsets inside a buffer,
// windows are (base, limit) pairs, failure is a Go panic caught at decode
// boundaries.

// Three behaviours of the decode API are open or known to be defective (see
// props/c03/NOTES.md); the model follows what the fq under test does, found
// out once by three two-line probe programs, so that the prediction of
// everything else (field order in particular) stays exact whether or not fq
// is repaired.  The defects themselves are reported by the oracles, not by
// the model: values behind the end of the buffer and unprocessed nested roots
// by the generic invariants, the start of nested roots by CompareTree.
type Behaviour struct {
	// SeekAbs/SeekRel to a position behind the end of the buffer fails
	// (before fq commit 205b5ad2: succeeded, the next read failed).
	SeekPastEndFails bool
	// FieldStruct/ArrayRootBitBufFn post-process the nested root also when
	// the callback fails (before fq commit 7e565ad1: only when it returned).
	NestedRootProcessedOnFailure bool
	// the start of a nested buffer root attached by a nested format is
	// rebased to the parent buffer like every other value (unchanged fq: it
	// stays relative to the nested format's range).
	NestedRootStartRebased bool
	// ranges.Gaps treats two ranges that are one bit apart as adjacent (the
	// known C04 defect): a one bit hole, or a hole that contains a range
	// without bits, gets no gap field.  Gap fields are not compared by C03
	// but they take part in the ranges of format roots.
	GapsMergeOneBitApart bool
}

var (
	behaviourOnce sync.Once
	behaviour     Behaviour
)

// FQBehaviour probes the fq under test.
func FQBehaviour() Behaviour {
	behaviourOnce.Do(func() {
		run := func(p *Program) *decode.Value {
			defer func() { _ = recover() }()
			v, _ := RunFQ(p)
			return v
		}
		kid := func(v *decode.Value, i int) *decode.Value {
			if v == nil {
				return nil
			}
			if c, ok := v.V.(*decode.Compound); ok && i < len(c.Children) {
				return c.Children[i]
			}
			return nil
		}
		if g := ranges.Gaps(ranges.Range{Len: 3}, []ranges.Range{{Start: 0, Len: 1}, {Start: 2, Len: 1}}); len(g) == 0 {
			behaviour.GapsMergeOneBitApart = true
		}
		if v := run(&Program{Input: "00", NBits: 8, Fmts: [][]*Op{{{K: "seekabs", Off: 100}}}}); v != nil && v.Err != nil {
			behaviour.SeekPastEndFails = true
		}
		if v := run(&Program{Input: "", NBits: 0, Fmts: [][]*Op{{{K: "structroot", Name: "r", Hex: "00", NB: 8, Kids: []*Op{{K: "u", Name: "x", N: 4}, {K: "u", Name: "y", N: 8}}}}}}); v != nil {
			if r := kid(v, 0); r != nil && r.Name == "r" && r.Range.Len == 4 {
				behaviour.NestedRootProcessedOnFailure = true
			}
		}
		if v := run(&Program{Input: "0000", NBits: 16, Fmts: [][]*Op{{{K: "u", Name: "p", N: 8}, {K: "fmt", Name: "f", Fmts: [][]*Op{{{K: "rootbuf", Name: "r", Hex: "00", NB: 8}, {K: "u", Name: "q", N: 8}}}}}}}); v != nil {
			if r := kid(kid(v, 1), 0); r != nil && r.Name == "r" && r.Range.Start == 8 {
				behaviour.NestedRootStartRebased = true
			}
		}
	})
	return behaviour
}

// RBuf is a buffer known to the reference.
type RBuf struct {
	ID   int
	Data []byte // left aligned
	Len  int64  // bits
}

// RNode is a predicted value.
type RNode struct {
	Name     string
	Kind     byte // 's' struct, 'a' array, 'l' leaf
	Start    int64
	Len      int64
	AbsStart int64 // nested roots: where the decoder stood in the parent buffer
	IsRoot   bool
	Buf      *RBuf // the buffer the value's range refers to (a root: its own buffer)
	Synth    bool
	Gap      bool
	Fmt      bool  // root of a format decode
	GapFill  bool  // ... that was gap filled
	DecStart int64 // format roots: the bit range handed to the decode (in Buf's coordinates)
	DecLen   int64
	Err      bool
	Kids     []*RNode
}

func (n *RNode) compound() bool { return n.Kind != 'l' }

// Prediction is the outcome of the reference run.
type Prediction struct {
	Root   *RNode // nil: every format of the group failed, fq returns no tree
	Failed bool   // Root carries an error (partial tree)
	Bufs   []*RBuf
	Labels map[string]bool
	Seeked bool
	// GapPanic: a value without bits lies one bit behind the end of a gap
	// filled range; fq's gap computation then yields a negative gap and
	// FillGaps panics outside of decode's recover scope.
	GapPanic bool
}

type refFail struct{ why string }

type rctx struct {
	node  *RNode
	buf   *RBuf
	pos   int64 // absolute
	base  int64 // start of the decode range the decoder sees as position 0
	limit int64 // absolute end of the current window
}

type refRun struct {
	force bool
	pred  *Prediction
	beh   Behaviour
}

func (r *refRun) label(l string) { r.pred.Labels[l] = true }

func fail(why string) { panic(refFail{why}) }

func (r *refRun) newBuf(data []byte, n int64) *RBuf {
	b := &RBuf{ID: len(r.pred.Bufs), Data: data, Len: n}
	r.pred.Bufs = append(r.pred.Bufs, b)
	return b
}

// addChild models D.AddChild: a duplicate name in a struct is a fatal decode error.
func (r *refRun) addChild(parent *RNode, k *RNode) {
	if parent.Kind == 's' {
		for _, x := range parent.Kids {
			if x.Name == k.Name {
				r.label("dup-name")
				fail("duplicate name")
			}
		}
	}
	parent.Kids = append(parent.Kids, k)
}

func (r *refRun) read(cx *rctx, n int64) {
	if cx.pos+n > cx.limit {
		r.label("read-past-end")
		fail("read past end")
	}
	cx.pos += n
}

func (r *refRun) seek(cx *rctx, target int64) {
	r.pred.Seeked = true
	if target < cx.base {
		r.label("seek-negative")
		fail("negative seek")
	}
	if target > cx.limit {
		r.label("seek-past-end")
		if r.beh.SeekPastEndFails {
			fail("seek past end")
		}
	}
	cx.pos = target
}

func (r *refRun) leaf(cx *rctx, name string, start, n int64, synth bool) {
	r.addChild(cx.node, &RNode{Name: name, Kind: 'l', Start: start, Len: n, Buf: cx.buf, Synth: synth})
}

func (r *refRun) exec(cx *rctx, ops []*Op) {
	for _, op := range ops {
		r.label("op:" + op.K)
		switch op.K {
		case "u", "s", "raw":
			st := cx.pos
			r.read(cx, op.N)
			r.leaf(cx, op.Name, st, op.N, false)
		case "bool":
			st := cx.pos
			r.read(cx, 1)
			r.leaf(cx, op.Name, st, 1, false)
		case "utf8":
			st := cx.pos
			left := cx.limit - cx.pos
			if op.N > left/8 { // Go integer division, as the byte count check of the text readers
				r.label("read-past-end")
				fail("text outside buffer")
			}
			if op.N > 0 { // reading no bits succeeds anywhere, also behind the end
				r.read(cx, op.N*8)
			}
			r.leaf(cx, op.Name, st, op.N*8, false)
		case "val":
			r.leaf(cx, op.Name, cx.pos, 0, true)
		case "struct", "array":
			k := byte('s')
			if op.K == "array" {
				k = 'a'
			}
			n := &RNode{Name: op.Name, Kind: k, Start: cx.pos, Buf: cx.buf}
			r.addChild(cx.node, n)
			sub := *cx
			sub.node = n
			r.exec(&sub, op.Kids)
			cx.pos = sub.pos // same reader: the position is shared
		case "seekrel":
			r.seek(cx, cx.pos+op.N)
		case "seekabs":
			r.seek(cx, cx.base+op.Off)
		case "seekrel_fn", "seekabs_fn":
			old := cx.pos
			if op.K == "seekrel_fn" {
				r.seek(cx, cx.pos+op.N)
			} else {
				r.seek(cx, cx.base+op.Off)
			}
			r.exec(cx, op.Kids)
			cx.pos = old
		case "framed", "limited", "range":
			first := cx.pos
			if op.K == "range" {
				first = cx.base + op.Off
			}
			// the window is [start of the decoder's buffer, first+n) and must lie inside the current one
			if first+op.N > cx.limit {
				r.label("window-outside")
				fail("window outside buffer")
			}
			sub := *cx
			sub.limit = first + op.N
			sub.pos = first
			r.exec(&sub, op.Kids)
			seeked := r.pred.Seeked
			switch op.K {
			case "framed":
				r.seek(cx, cx.pos+op.N)
			case "limited":
				r.seek(cx, sub.pos)
			}
			r.pred.Seeked = seeked
		case "fmt", "fmt_or_raw", "fmt_inline":
			start, n := cx.pos, cx.limit-cx.pos
			dv, ok := r.decodeSub(cx, op, start, n, false)
			if !ok {
				if op.K != "fmt_or_raw" {
					fail("nested format failed")
				}
				st := cx.pos
				left := cx.limit - cx.pos
				if left < 0 {
					fail("raw outside buffer")
				}
				r.read(cx, left)
				r.leaf(cx, op.Name, st, left, false)
				continue
			}
			if op.K == "fmt_inline" {
				for _, k := range dv.Kids {
					r.addChild(cx.node, k)
				}
			} else {
				r.addChild(cx.node, dv)
			}
			cx.pos += dv.Len
		case "fmtlen", "fmtlen_or_raw":
			dv, ok := r.decodeSub(cx, op, cx.pos, op.N, true)
			if !ok {
				if op.K != "fmtlen_or_raw" {
					fail("nested format failed")
				}
				st := cx.pos
				r.read(cx, op.N)
				r.leaf(cx, op.Name, st, op.N, false)
				continue
			}
			r.addChild(cx.node, dv)
			cx.pos += op.N
		case "fmtrange":
			dv, ok := r.decodeSub(cx, op, cx.base+op.Off, op.N, true)
			if !ok {
				fail("nested format failed")
			}
			r.addChild(cx.node, dv)
		case "fmtbuf":
			b, _ := hex.DecodeString(op.Hex)
			r.formatBitBuf(cx, op, r.newBuf(b, op.NB))
		case "fmtreader":
			if cx.pos+op.N > cx.limit {
				r.label("read-past-end")
				fail("reader range outside buffer")
			}
			src := SliceBits(cx.buf.Data, cx.pos, op.N)
			for i := range src {
				src[i] ^= ReaderXor
			}
			cx.pos += op.N
			r.formatBitBuf(cx, op, r.newBuf(src, int64(len(src))*8))
		case "rootbuf":
			b, _ := hex.DecodeString(op.Hex)
			nb := r.newBuf(b, op.NB)
			r.label("nested-buffer")
			r.addChild(cx.node, &RNode{Name: op.Name, Kind: 'l', Start: r.rootStart(cx), AbsStart: cx.pos, Len: op.NB, IsRoot: true, Buf: nb})
		case "structroot", "arrayroot":
			b, _ := hex.DecodeString(op.Hex)
			nb := r.newBuf(b, op.NB)
			r.label("nested-buffer")
			k := byte('s')
			if op.K == "arrayroot" {
				k = 'a'
			}
			n := &RNode{Name: op.Name, Kind: k, Start: r.rootStart(cx), AbsStart: cx.pos, IsRoot: true, Buf: nb}
			r.addChild(cx.node, n)
			sub := &rctx{node: n, buf: nb, pos: 0, base: 0, limit: nb.Len}
			func() {
				if r.beh.NestedRootProcessedOnFailure {
					defer r.finishNestedRoot(cx, n)
				}
				r.exec(sub, op.Kids) // a failure leaves the nested root as it is
				if !r.beh.NestedRootProcessedOnFailure {
					r.finishNestedRoot(cx, n)
				}
			}()
		case "errorf":
			if !r.force {
				fail("errorf")
			}
		case "fatalf":
			fail("fatalf")
		default:
			panic("treegen: unknown op " + op.K)
		}
	}
}

// rootStart: the start fq gives a nested buffer root.
func (r *refRun) rootStart(cx *rctx) int64 {
	if cx.base != 0 {
		r.label("nested-root-in-nested-format")
	}
	if r.beh.NestedRootStartRebased {
		return cx.pos
	}
	return cx.pos - cx.base
}

// finishNestedRoot: post-processing of a FieldStruct/ArrayRootBitBufFn root
// replaces its range by the span of its children (in the nested buffer's
// coordinates); the enclosing nested formats then rebase it, or not.
func (r *refRun) finishNestedRoot(cx *rctx, n *RNode) {
	r.postProcess(n)
	for _, k := range n.Kids {
		if !k.IsRoot && !k.Synth {
			// the range now is the children's span
			if r.beh.NestedRootStartRebased {
				n.Start += cx.base
			}
			break
		}
	}
}

func (r *refRun) formatBitBuf(cx *rctx, op *Op, nb *RBuf) {
	r.label("nested-buffer")
	dv, failed := r.nestedDecode(op.Fmts, op.Arr, op.Name, nb, 0, nb.Len, true, true)
	if dv == nil || failed {
		fail("nested buffer format failed")
	}
	dv.Start = r.rootStart(cx)
	dv.AbsStart = cx.pos
	r.addChild(cx.node, dv)
}

// decodeSub models the nested decodes on the decoder's own buffer.
func (r *refRun) decodeSub(cx *rctx, op *Op, start, n int64, fillGaps bool) (*RNode, bool) {
	r.label("nested-format")
	cur := cx.limit - cx.base
	rs := start - cx.base
	if rs == 0 && n == 0 {
		// Options.Range: "if zero use whole buffer"
		n = cur
		if cur != 0 {
			r.label("zero-range-means-whole-buffer")
		}
	}
	if n < 0 || start+n > cx.limit {
		r.label("window-outside")
		return nil, false
	}
	name := op.Name
	if op.K == "fmt_inline" {
		name = ""
	}
	dv, failed := r.nestedDecode(op.Fmts, op.Arr, name, cx.buf, start, n, fillGaps, false)
	if dv == nil || failed {
		return nil, false
	}
	return dv, true
}

// nestedDecode: a panic of the gap filling of a nested decode unwinds into
// the decoder that asked for it, which fails like after any other error.
func (r *refRun) nestedDecode(fmts [][]*Op, arr bool, name string, buf *RBuf, start, n int64, fillGaps, isRoot bool) (dv *RNode, failed bool) {
	gapPanic := false
	func() {
		defer func() {
			if x := recover(); x != nil {
				if _, is := x.(refGapPanic); !is {
					panic(x)
				}
				gapPanic = true
			}
		}()
		dv, failed = r.decodeGroup(fmts, arr, name, buf, start, n, fillGaps, isRoot)
	}()
	if gapPanic {
		r.label("gap-panic-in-nested-decode")
		fail("gap filling of the nested decode paniced")
	}
	return dv, failed
}

// decodeGroup models decode.Decode: formats are tried in order, a group of one
// format keeps its partial tree on failure.
func (r *refRun) decodeGroup(fmts [][]*Op, arr bool, name string, buf *RBuf, start, n int64, fillGaps, isRoot bool) (dv *RNode, failed bool) {
	for _, body := range fmts {
		k := byte('s')
		if arr {
			k = 'a'
		}
		root := &RNode{Name: name, Kind: k, Start: start, Buf: buf, Fmt: true, GapFill: fillGaps, IsRoot: isRoot, DecStart: start, DecLen: n}
		cx := &rctx{node: root, buf: buf, pos: start, base: start, limit: start + n}
		ok := func() (ok bool) {
			defer func() {
				if x := recover(); x != nil {
					if _, is := x.(refFail); !is {
						panic(x)
					}
					ok = false
				}
			}()
			r.exec(cx, body)
			return true
		}()
		if !ok {
			if len(fmts) != 1 {
				r.label("format-skipped-in-group")
				continue
			}
			root.Err = true
		}
		if fillGaps {
			r.fillGaps(root, start, n)
		}
		// the root's range: from the start of the decode range to the largest stop seen
		var maxStop int64
		walkSameRoot(root, func(v *RNode) {
			if v != root && v.Start+v.Len-start > maxStop {
				maxStop = v.Start + v.Len - start
			}
		})
		root.Start, root.Len = start, maxStop
		if isRoot {
			r.postProcess(root)
		}
		return root, !ok
	}
	return nil, true
}

func walkSameRoot(root *RNode, fn func(v *RNode)) {
	fn(root)
	for _, k := range root.Kids {
		if k.IsRoot {
			continue
		}
		walkSameRoot(k, fn)
	}
}

// fillGaps adds gap leaves for the bits of [start, start+n) no leaf covers.
func (r *refRun) fillGaps(root *RNode, start, n int64) {
	covered := make([]bool, n)
	any := false
	walkSameRoot(root, func(v *RNode) {
		if v.compound() || v == root {
			return
		}
		for i := v.Start; i < v.Start+v.Len; i++ {
			if i-start >= 0 && i-start < n {
				covered[i-start] = true
			}
		}
		if v.Len > 0 {
			any = true
		}
	})
	var gaps [][2]int64
	switch {
	case !any:
		// no leaf with bits: one gap for the whole range (also when it is empty)
		gaps = append(gaps, [2]int64{0, n})
	case r.beh.GapsMergeOneBitApart:
		gaps = tolerantGaps(root, start, n)
	default:
		for i := int64(0); i < n; {
			if covered[i] {
				i++
				continue
			}
			j := i
			for j < n && !covered[j] {
				j++
			}
			gaps = append(gaps, [2]int64{i, j - i})
			i = j
		}
	}
	if start != 0 && len(gaps) > 0 && gaps[0][0] == 0 && gaps[0][1] > 0 && any {
		// a gap filled decode that does not start at bit 0 of its buffer and
		// leaves its first bits undecoded
		r.label("nested-gapfill-at-offset-with-leading-gap")
	}
	for i, g := range gaps {
		r.label("gap")
		root.Kids = append(root.Kids, &RNode{Name: fmt.Sprintf("gap%d", i), Kind: 'l', Start: start + g[0], Len: g[1], Buf: root.Buf, Gap: true})
	}
}

// tolerantGaps: the gaps of an fq whose gap computation joins a range to the
// current run when it starts at most one bit behind the run's end (ranges
// without bits extend a run but never start one).  A run that was extended
// behind the end of the range makes fq panic (negative gap): modelled as such.
func tolerantGaps(root *RNode, start, n int64) [][2]int64 {
	type rg struct{ a, b int64 }
	var rs []rg
	walkSameRoot(root, func(v *RNode) {
		if !v.compound() && v != root {
			rs = append(rs, rg{v.Start - start, v.Start - start + v.Len})
		}
	})
	sort.SliceStable(rs, func(i, j int) bool { return rs[i].a < rs[j].a })
	var runs []rg
	var cur *rg
	for _, x := range rs {
		if cur != nil {
			if x.a <= cur.b+1 {
				if x.b > cur.b {
					cur.b = x.b
				}
				continue
			}
			runs = append(runs, *cur)
			cur = nil
		}
		if x.a == x.b {
			continue
		}
		c := x
		cur = &c
	}
	if cur != nil {
		runs = append(runs, *cur)
	}
	var out [][2]int64
	if len(runs) == 0 {
		return [][2]int64{{0, n}}
	}
	if runs[0].a != 0 {
		out = append(out, [2]int64{0, runs[0].a})
	}
	for i := 0; i+1 < len(runs); i++ {
		out = append(out, [2]int64{runs[i].b, runs[i+1].a - runs[i].b})
	}
	if l := runs[len(runs)-1]; l.b != n {
		if l.b > n {
			panic(refGapPanic{})
		}
		out = append(out, [2]int64{l.b, n - l.b})
	}
	return out
}

// refGapPanic: fq's gap filling panics outside of its recover scope.
type refGapPanic struct{}

// postProcess: compound range = span of the children of the same buffer that
// are not synthetic; struct fields in stable order of start.
func (r *refRun) postProcess(v *RNode) {
	if !v.compound() {
		return
	}
	for _, k := range v.Kids {
		if !k.IsRoot {
			r.postProcess(k)
		}
	}
	first := true
	var lo, hi int64
	for _, k := range v.Kids {
		if k.IsRoot || k.Synth {
			continue
		}
		if first {
			lo, hi, first = k.Start, k.Start+k.Len, false
			continue
		}
		if k.Start < lo {
			lo = k.Start
		}
		if k.Start+k.Len > hi {
			hi = k.Start + k.Len
		}
	}
	if !first {
		v.Start, v.Len = lo, hi-lo
	}
	if v.Kind == 's' {
		sort.SliceStable(v.Kids, func(i, j int) bool { return v.Kids[i].Start < v.Kids[j].Start })
	}
}

// Predict runs the reference interpreter.
func Predict(p *Program) *Prediction {
	pred := &Prediction{Labels: map[string]bool{}}
	r := &refRun{force: p.Force, pred: pred, beh: FQBehaviour()}
	top := r.newBuf(p.Data(), p.NBits)
	func() {
		defer func() {
			if x := recover(); x != nil {
				if _, is := x.(refGapPanic); !is {
					panic(x)
				}
				pred.GapPanic = true
			}
		}()
		root, failed := r.decodeGroup(p.Fmts, p.Arr, "", top, 0, p.NBits, true, true)
		pred.Root, pred.Failed = root, failed && root != nil
	}()
	return pred
}
