package treegen

import (
	"bufio"
	"context"
	"encoding/json"
	"errors"
	"fmt"
	"io"
	"os"
	"os/exec"
	"path/filepath"
	"runtime/debug"
	"strings"
	"sync"
	"syscall"
	"time"

	"github.com/wader/fq/pkg/bitio"
	"github.com/wader/fq/pkg/decode"
	"github.com/wader/fq/pkg/interp"
	"github.com/wader/fq/verif/lib/fqx"
	"github.com/wader/fq/verif/lib/harness"
)

// Req names one corpus decode: entry (path, format), mutation, force.
type Req struct {
	Path   string   `json:"path"`
	Format string   `json:"format"`
	Mut    Mutation `json:"mut"`
	Force  bool     `json:"force,omitempty"`
}

func (r Req) String() string {
	return fmt.Sprintf("%s|%s|%s@%d/%d/%d|force=%v", r.Path, r.Format, r.Mut.Kind, r.Mut.Off, r.Mut.Val, r.Mut.N, r.Force)
}

// Fail is one oracle failure found in a tree.
type Fail struct {
	Sig string `json:"sig"`
	Msg string `json:"msg"`
}

// Result is what a tree oracle reports for one case.
type Result struct {
	// Status: "tree" (a tree was produced and checked), "notree" (decode
	// error without a tree: every format of the group failed), "panic" (a Go
	// panic escaped the decoder: C06's subject, the tree oracle is skipped),
	// "budget" (the harness's read budget ended the decode: skipped),
	// "died" / "timeout" (worker process ended: C06's subject, skipped).
	Status string           `json:"status"`
	Labels []string         `json:"labels,omitempty"`
	NT     bool             `json:"nt,omitempty"`
	Hash   uint64           `json:"hash,omitempty"`
	Fails  []Fail           `json:"fails,omitempty"`
	Stats  map[string]int64 `json:"stats,omitempty"`
	Detail string           `json:"detail,omitempty"`
}

func (r *Result) Failf(sig, format string, a ...any) {
	// at most 3 messages per signature and 40 in total are kept
	n := 0
	for _, f := range r.Fails {
		if f.Sig == sig {
			n++
		}
	}
	if n >= 3 || len(r.Fails) >= 40 {
		return
	}
	msg := fmt.Sprintf(format, a...)
	if len(msg) > 1500 {
		msg = msg[:1500] + "…"
	}
	r.Fails = append(r.Fails, Fail{Sig: sig, Msg: msg})
}

func (r *Result) Label(l string) {
	for _, x := range r.Labels {
		if x == l {
			return
		}
	}
	r.Labels = append(r.Labels, l)
}

func (r *Result) Stat(k string, n int64) {
	if r.Stats == nil {
		r.Stats = map[string]int64{}
	}
	r.Stats[k] += n
}

// TreeCase is handed to the oracle.
type TreeCase struct {
	Req    Req
	Data   []byte // the (mutated) input; the top buffer is exactly these bytes
	Top    *decode.Value
	Tree   *Tree
	Err    error // decode error (FormatsError); a partial tree may still exist
	Failed bool  // the top value carries an error (partial tree)
}

// Handler is a tree oracle: it inspects tc and records into res.
type Handler func(tc *TreeCase, res *Result)

// ReadBudget bounds the work of one decode deterministically: the number of
// read calls the decoder may issue against the input before every further
// read fails.  (Decoders do not poll the context; a mutated length field can
// otherwise make one loop for minutes.)
const ReadBudget = 3_000_000

var errBudget = errors.New("verif: read budget exhausted")

type budget struct {
	left int64
	hit  bool
}

type budgetReader struct {
	r bitio.ReaderAtSeeker
	b *budget
}

func (r *budgetReader) take() error {
	if r.b.left <= 0 {
		r.b.hit = true
		return errBudget
	}
	r.b.left--
	return nil
}

func (r *budgetReader) ReadBits(p []byte, nBits int64) (int64, error) {
	if err := r.take(); err != nil {
		return 0, err
	}
	return r.r.ReadBits(p, nBits)
}

func (r *budgetReader) ReadBitsAt(p []byte, nBits int64, bitOff int64) (int64, error) {
	if err := r.take(); err != nil {
		return 0, err
	}
	return r.r.ReadBitsAt(p, nBits, bitOff)
}

func (r *budgetReader) SeekBits(bitOff int64, whence int) (int64, error) {
	return r.r.SeekBits(bitOff, whence)
}

func (r *budgetReader) clone() (*budgetReader, error) {
	c, err := bitio.CloneReaderAtSeeker(r.r)
	if err != nil {
		return nil, err
	}
	return &budgetReader{r: c, b: r.b}, nil
}

func (r *budgetReader) CloneReader() (bitio.Reader, error)                 { return r.clone() }
func (r *budgetReader) CloneReadSeeker() (bitio.ReadSeeker, error)         { return r.clone() }
func (r *budgetReader) CloneReadAtSeeker() (bitio.ReadAtSeeker, error)     { return r.clone() }
func (r *budgetReader) CloneReaderAtSeeker() (bitio.ReaderAtSeeker, error) { return r.clone() }

// Run executes one corpus case in this process: mutate, decode like fq's top
// level does (root, gap filling), walk, call the oracle.
func Run(req Req, h Handler) (res *Result) {
	orig, err := loadFile(req.Path)
	if err != nil {
		return &Result{Status: "notree", Detail: "cannot read sample: " + err.Error()}
	}
	return RunData(req, req.Mut.Apply(orig), h)
}

var (
	fileMu    sync.Mutex
	fileCache = map[string][]byte{}
)

// loadFile reads a sample by its path relative to the repo (a worker does not
// scan the whole corpus: it is restarted after every decoder death).
func loadFile(rel string) ([]byte, error) {
	fileMu.Lock()
	defer fileMu.Unlock()
	if b, ok := fileCache[rel]; ok {
		return b, nil
	}
	if strings.Contains(rel, "..") || filepath.IsAbs(rel) {
		return nil, errors.New("bad path")
	}
	b, err := os.ReadFile(filepath.Join(fqx.RepoDir(), rel))
	if err != nil {
		return nil, err
	}
	if len(fileCache) < 4096 {
		fileCache[rel] = b
	}
	return b, nil
}

// RunData is Run with the input bytes given.
func RunData(req Req, data []byte, h Handler) (res *Result) {
	res = &Result{}
	g, err := interp.DefaultRegistry.Group(req.Format)
	if err != nil {
		res.Status = "notree"
		res.Detail = err.Error()
		return res
	}
	b := &budget{left: ReadBudget}
	br := &budgetReader{r: bitio.NewBitReader(data, -1), b: b}
	var top *decode.Value
	var derr error
	func() {
		defer func() {
			if r := recover(); r != nil {
				res.Status = "panic"
				res.Detail = fmt.Sprintf("%v @ %s", r, harness.TopRepoFrame(string(debug.Stack())))
			}
		}()
		top, _, derr = decode.Decode(context.Background(), br, g, decode.Options{IsRoot: true, FillGaps: true, Force: req.Force, Description: "verif"})
	}()
	if res.Status == "panic" {
		res.Label("skipped:decoder-panic")
		return res
	}
	if b.hit {
		res.Status = "budget"
		res.Label("skipped:read-budget")
		return res
	}
	if top == nil {
		res.Status = "notree"
		res.Label("no-tree")
		return res
	}
	// the oracle reads through the buffers again: fresh budget
	b.left = 1 << 40
	res.Status = "tree"
	tc := &TreeCase{Req: req, Data: data, Top: top, Err: derr, Failed: top.Err != nil}
	func() {
		defer func() {
			if r := recover(); r != nil {
				res.Failf("oracle-panic", "panic while walking the tree: %v\n%s", r, debug.Stack())
			}
		}()
		tc.Tree = Build(top)
		h(tc, res)
	}()
	return res
}

// ---------------------------------------------------------------------------
// worker process

const workerEnv = "VERIF_TREEGEN_WORKER"

// IsWorker reports whether this process was started as a tree worker.
func IsWorker() bool { return os.Getenv(workerEnv) != "" }

// ServeWorker answers requests on fd 3 with results on fd 4 until EOF.  Call
// it from TestMain (before harness.Main) when IsWorker().
func ServeWorker(h Handler) {
	debug.SetMaxStack(512 << 20)
	// a hostile allocation should end the worker quickly
	var lim syscall.Rlimit
	if syscall.Getrlimit(syscall.RLIMIT_AS, &lim) == nil {
		const want = 3 << 30
		if lim.Cur > want {
			lim.Cur = want
			_ = syscall.Setrlimit(syscall.RLIMIT_AS, &lim)
		}
	}
	in := bufio.NewReaderSize(os.NewFile(3, "req"), 1<<20)
	out := os.NewFile(4, "res")
	for {
		line, err := in.ReadBytes('\n')
		if len(line) > 0 {
			var req Req
			var res *Result
			if jerr := json.Unmarshal(line, &req); jerr != nil {
				res = &Result{Status: "notree", Detail: "bad request: " + jerr.Error()}
			} else {
				res = Run(req, h)
			}
			b, _ := json.Marshal(res)
			b = append(b, '\n')
			if _, werr := out.Write(b); werr != nil {
				return
			}
		}
		if err != nil {
			return
		}
	}
}

// Pool runs corpus cases in a child process (this test binary started again as
// a worker), so that a fatal fault of a decoder (out of memory, stack
// exhaustion: the subject of C06) ends the worker and not the check.
type Pool struct {
	mu      sync.Mutex
	cmd     *exec.Cmd
	in      io.WriteCloser
	out     *bufio.Reader
	outF    *os.File
	stderr  *tailBuf
	Timeout time.Duration
	Deaths  int
}

// tailBuf keeps the first 8 KiB of the worker's stderr (the Go fault header).
type tailBuf struct {
	mu sync.Mutex
	b  []byte
}

func (t *tailBuf) Write(p []byte) (int, error) {
	t.mu.Lock()
	if room := 8192 - len(t.b); room > 0 {
		if len(p) < room {
			room = len(p)
		}
		t.b = append(t.b, p[:room]...)
	}
	t.mu.Unlock()
	return len(p), nil
}

func (t *tailBuf) head() string {
	t.mu.Lock()
	defer t.mu.Unlock()
	s := string(t.b)
	lines := strings.Split(s, "\n")
	for i, l := range lines {
		if strings.HasPrefix(l, "fatal error:") || strings.HasPrefix(l, "panic:") || strings.HasPrefix(l, "runtime:") {
			// fault header + top fq frame
			return l + " @ " + harness.TopRepoFrame(strings.Join(lines[i:], "\n"))
		}
	}
	if len(s) > 200 {
		s = s[:200]
	}
	return s
}

func NewPool() *Pool { return &Pool{Timeout: 60 * time.Second} }

func (p *Pool) start() error {
	reqR, reqW, err := os.Pipe()
	if err != nil {
		return err
	}
	resR, resW, err := os.Pipe()
	if err != nil {
		return err
	}
	cmd := exec.Command(selfPath(), "-test.run=^$")
	env := []string{}
	for _, kv := range os.Environ() {
		if strings.HasPrefix(kv, "VERIF_FRAG=") || strings.HasPrefix(kv, "VERIF_JOURNAL=") || strings.HasPrefix(kv, "VERIF_REPLAY=") {
			continue
		}
		env = append(env, kv)
	}
	cmd.Env = append(env, workerEnv+"=1", "GOTRACEBACK=single")
	cmd.ExtraFiles = []*os.File{reqR, resW}
	p.stderr = &tailBuf{}
	cmd.Stderr = p.stderr
	cmd.Stdout = io.Discard
	if err := cmd.Start(); err != nil {
		return err
	}
	reqR.Close()
	resW.Close()
	p.cmd, p.in, p.out, p.outF = cmd, reqW, bufio.NewReaderSize(resR, 1<<20), resR
	return nil
}

func (p *Pool) kill() {
	if p.cmd == nil {
		return
	}
	_ = p.in.Close()
	_ = p.cmd.Process.Kill()
	_, _ = p.cmd.Process.Wait()
	_ = p.outF.Close()
	p.cmd = nil
}

// Close ends the worker.
func (p *Pool) Close() {
	p.mu.Lock()
	defer p.mu.Unlock()
	p.kill()
}

// Run sends req to the worker.  When the worker dies or does not answer in
// time the result has Status "died"/"timeout" (no verdict about the tree).
func (p *Pool) Run(req Req) *Result {
	p.mu.Lock()
	defer p.mu.Unlock()
	if p.cmd == nil {
		if err := p.start(); err != nil {
			return &Result{Status: "died", Detail: "cannot start worker: " + err.Error(), Labels: []string{"skipped:worker-start"}}
		}
	}
	b, _ := json.Marshal(req)
	b = append(b, '\n')
	if _, err := p.in.Write(b); err != nil {
		d := p.stderr.head()
		p.kill()
		p.Deaths++
		return &Result{Status: "died", Detail: d, Labels: []string{"skipped:worker-died"}}
	}
	type ans struct {
		line []byte
		err  error
	}
	ch := make(chan ans, 1)
	out := p.out
	go func() {
		line, err := out.ReadBytes('\n')
		ch <- ans{line, err}
	}()
	select {
	case a := <-ch:
		if a.err != nil {
			// wait for the process so that stderr is complete
			_ = p.in.Close()
			_, _ = p.cmd.Process.Wait()
			d := p.stderr.head()
			_ = p.outF.Close()
			p.cmd = nil
			p.Deaths++
			return &Result{Status: "died", Detail: d, Labels: []string{"skipped:worker-died"}}
		}
		var res Result
		if err := json.Unmarshal(a.line, &res); err != nil {
			return &Result{Status: "died", Detail: "bad answer: " + err.Error(), Labels: []string{"skipped:worker-died"}}
		}
		return &res
	case <-time.After(p.Timeout):
		p.kill()
		<-ch
		p.Deaths++
		return &Result{Status: "timeout", Detail: "no answer within the harness time limit", Labels: []string{"skipped:worker-timeout"}}
	}
}

func selfPath() string {
	if p, err := os.Executable(); err == nil {
		return p
	}
	return os.Args[0]
}
