package treegen

import (
	"fmt"
	"sort"
	"strings"

	"github.com/wader/fq/pkg/decode"
	"github.com/wader/fq/pkg/scalar"
)

func valueKind(v *decode.Value) byte {
	if c, ok := v.V.(*decode.Compound); ok {
		if c.IsArray {
			return 'a'
		}
		return 's'
	}
	return 'l'
}

func valueIsGap(v *decode.Value) bool {
	if s, ok := v.V.(scalar.Scalarable); ok {
		return s.ScalarFlags().IsGap()
	}
	return false
}

func kidNames(vs []*decode.Value) string {
	var ns []string
	for _, v := range vs {
		ns = append(ns, fmt.Sprintf("%s@%d:%d", v.Name, v.Range.Start, v.Range.Len))
	}
	return strings.Join(ns, " ")
}

func rkidNames(vs []*RNode) string {
	var ns []string
	for _, v := range vs {
		ns = append(ns, fmt.Sprintf("%s@%d:%d", v.Name, v.Start, v.Len))
	}
	return strings.Join(ns, " ")
}

// CompareTree checks the tree fq produced for a generated program against
// the predicted one: kinds, names, ranges, order, which values are roots, the
// attached error.  Gap fields are left out on both sides (they are C04's
// subject); everything gaps influence (ranges of format roots) is compared.
func CompareTree(top *decode.Value, pred *Prediction, res *Result) {
	if pred.Root == nil {
		if top != nil {
			res.Failf("tree-although-every-format-failed", "the reference run fails in every format of the group, fq returned a tree")
		}
		return
	}
	if top == nil {
		res.Failf("no-tree", "fq returned no tree, the reference run predicts one (failed=%v)", pred.Failed)
		return
	}
	var cmp func(fv *decode.Value, rn *RNode, path string)
	cmp = func(fv *decode.Value, rn *RNode, path string) {
		if k := valueKind(fv); k != rn.Kind {
			res.Failf("kind", "%s: fq has kind %c, predicted %c", path, k, rn.Kind)
			return
		}
		if fv.Name != rn.Name {
			res.Failf("name", "%s: fq has name %q, predicted %q", path, fv.Name, rn.Name)
		}
		if fv.IsRoot != rn.IsRoot {
			res.Failf("root-flag", "%s: IsRoot %v, predicted %v", path, fv.IsRoot, rn.IsRoot)
		}
		if (fv.Err != nil) != rn.Err {
			res.Failf("error-flag", "%s: error attached %v (%v), predicted %v", path, fv.Err != nil, fv.Err, rn.Err)
		}
		kind := "leaf"
		if rn.compound() {
			kind = "compound"
		}
		switch {
		case path == ".":
			// the top value: IsRoot, its range is its inner range
			if fv.Range.Start != rn.Start || fv.Range.Len != rn.Len {
				res.Failf("range:top", "%s: fq range %d:%d, predicted %d:%d", path, fv.Range.Start, fv.Range.Len, rn.Start, rn.Len)
			}
		case rn.IsRoot:
			if fv.Range.Len != rn.Len {
				res.Failf("range:nested-root-len", "%s: fq length %d, predicted %d", path, fv.Range.Len, rn.Len)
			}
			if fv.Range.Start != rn.Start {
				res.Failf("range:nested-root-start", "%s: fq start %d, the model of fq says %d (decoder stood at %d of the buffer)", path, fv.Range.Start, rn.Start, rn.AbsStart)
			} else if (rn.Kind == 'l' || rn.Fmt) && fv.Range.Start != rn.AbsStart {
				res.Failf("nested-root-start-not-rebased", "%s: the nested buffer was attached at bit %d of the parent buffer, fq reports start %d (relative to the nested format that attached it)", path, rn.AbsStart, fv.Range.Start)
			}
		default:
			if fv.Range.Start != rn.Start || fv.Range.Len != rn.Len {
				res.Failf("range:"+kind, "%s: fq range %d:%d, the field read %d:%d", path, fv.Range.Start, fv.Range.Len, rn.Start, rn.Len)
			}
		}
		if !rn.compound() {
			return
		}
		var fk []*decode.Value
		for _, k := range fv.V.(*decode.Compound).Children {
			if !valueIsGap(k) {
				fk = append(fk, k)
			}
		}
		var rk []*RNode
		for _, k := range rn.Kids {
			if !k.Gap {
				rk = append(rk, k)
			}
		}
		if len(fk) != len(rk) {
			res.Failf("child-count", "%s: fq has children [%s], predicted [%s]", path, kidNames(fk), rkidNames(rk))
			return
		}
		sameOrder := true
		for i := range fk {
			if fk[i].Name != rk[i].Name {
				sameOrder = false
			}
		}
		if !sameOrder {
			res.Failf("child-order", "%s: fq has children [%s], predicted [%s]", path, kidNames(fk), rkidNames(rk))
			return
		}
		for i := range fk {
			p := path
			if p == "." {
				p = ""
			}
			if rn.Kind == 'a' {
				p = fmt.Sprintf("%s[%d]", p, i)
			} else {
				p = p + "." + rk[i].Name
			}
			cmp(fk[i], rk[i], p)
		}
	}
	cmp(top, pred.Root, ".")
}

// CompareGaps checks the gap fields of a generated program's tree against the
// reference: the reference knows the bit range handed to every gap filling
// decode, so every gap field of that decode must lie inside it, and the gap
// fields must be exactly the predicted ones (the model follows the probed
// one-bit tolerance of ranges.Gaps, which C04's coverage oracle reports).
// Structural disagreements between the two trees are C03's subject: the walk
// stops there silently.
func CompareGaps(top *decode.Value, pred *Prediction, res *Result) {
	if pred.Root == nil || top == nil || pred.GapPanic {
		return
	}
	type rg struct{ s, l int64 }
	str := func(rs []rg) string {
		var ns []string
		for _, r := range rs {
			ns = append(ns, fmt.Sprintf("%d:%d", r.s, r.l))
		}
		return "[" + strings.Join(ns, " ") + "]"
	}
	var cmp func(fv *decode.Value, rn *RNode, path string)
	cmp = func(fv *decode.Value, rn *RNode, path string) {
		if valueKind(fv) != rn.Kind || !rn.compound() {
			return
		}
		var fk []*decode.Value
		var fg, rgaps []rg
		for _, k := range fv.V.(*decode.Compound).Children {
			if valueIsGap(k) {
				if k.Range.Len != 0 {
					fg = append(fg, rg{k.Range.Start, k.Range.Len})
				}
			} else {
				fk = append(fk, k)
			}
		}
		var rk []*RNode
		for _, k := range rn.Kids {
			if k.Gap {
				if k.Len != 0 {
					rgaps = append(rgaps, rg{k.Start, k.Len})
				}
			} else {
				rk = append(rk, k)
			}
		}
		sort.Slice(fg, func(i, j int) bool { return fg[i].s < fg[j].s })
		sort.Slice(rgaps, func(i, j int) bool { return rgaps[i].s < rgaps[j].s })
		switch {
		case rn.Fmt && rn.GapFill:
			bad := false
			for _, g := range fg {
				if g.s < rn.DecStart || g.s+g.l > rn.DecStart+rn.DecLen {
					res.Failf("gap-outside-its-decode-range", "%s: the gap filling decode was handed bits %d:%d of its buffer, its gap field %d:%d is not inside", path, rn.DecStart, rn.DecLen, g.s, g.l)
					bad = true
				}
			}
			if !bad && fmt.Sprint(fg) != fmt.Sprint(rgaps) {
				res.Failf("gap-fields-differ-from-reference", "%s: decode of bits %d:%d has gap fields %s, the reference interpreter predicts %s", path, rn.DecStart, rn.DecLen, str(fg), str(rgaps))
			}
		case len(fg) > 0:
			res.Failf("gap-field-without-gap-filling", "%s: gap fields %s in a value no gap filling decode produced", path, str(fg))
		}
		if len(fk) != len(rk) {
			return
		}
		for i := range fk {
			p := path
			if p == "." {
				p = ""
			}
			if rn.Kind == 'a' {
				p = fmt.Sprintf("%s[%d]", p, i)
			} else {
				p = p + "." + rk[i].Name
			}
			cmp(fk[i], rk[i], p)
		}
	}
	cmp(top, pred.Root, ".")
}
