// Package treegen is the shared source of decode trees for the tree-level
// properties (C03, C04; reusable by C05, C12):
//
//	(A) the sample corpus of fqx.Corpus(), unmodified and under a family of
//	    byte-level mutations, sampled evenly over formats (corpus.go); mutated
//	    decodes run in a crash-isolated worker process (worker.go);
//	(B) generated decoder programs over the public decode API together with a
//	    reference interpreter that predicts the whole tree (prog.go, ref.go).
//
// tree.go has the walk helpers (buffer roots, leaves, flags) every tree oracle
// needs.
package treegen

import (
	"path/filepath"
	"sort"
	"strings"
	"sync"

	"github.com/wader/fq/verif/lib/fqx"
	"pgregory.net/rapid"
)

// Bucket is the set of corpus entries of one format (entries decoded through
// the probe group are split by the directory of the sample, i.e. by their
// home format), so that sampling "bucket, then entry" is even over formats
// although the corpus is dominated by wasm (1577) and tzif (352) entries.
type Bucket struct {
	Key     string
	Entries []int // indexes into Corpus()
}

func bucketKey(e fqx.Entry) string {
	if e.Format != "probe" {
		return e.Format
	}
	dir := filepath.Dir(e.Path)
	for strings.HasSuffix(dir, "/testdata") || strings.Contains(filepath.Base(dir), "testdata") {
		dir = filepath.Dir(dir)
	}
	return "probe:" + filepath.Base(dir)
}

// excluded names the samples that cannot be decoded with default options in a
// bounded amount of memory: bigzero-zip.zip is a decompression bomb whose own
// golden test runs with `-o uncompress=false`, an option the (file, format)
// corpus does not carry.
var excluded = map[string]bool{
	"format/zip/testdata/bigzero-zip.zip": true,
}

var (
	corpusOnce sync.Once
	corpus     []fqx.Entry
)

// Corpus is fqx.Corpus() without the excluded samples (same order).
func Corpus() []fqx.Entry {
	corpusOnce.Do(func() {
		for _, e := range fqx.Corpus() {
			if !excluded[e.Path] {
				corpus = append(corpus, e)
			}
		}
	})
	return corpus
}

// Buckets groups the corpus entries whose file is at most maxBytes long
// (maxBytes <= 0: all), sorted by key.  Entries index into Corpus().
func Buckets(maxBytes int) []Bucket {
	m := map[string][]int{}
	for i, e := range Corpus() {
		if maxBytes > 0 && len(e.Data) > maxBytes {
			continue
		}
		k := bucketKey(e)
		m[k] = append(m[k], i)
	}
	keys := make([]string, 0, len(m))
	for k := range m {
		keys = append(keys, k)
	}
	sort.Strings(keys)
	out := make([]Bucket, 0, len(keys))
	for _, k := range keys {
		out = append(out, Bucket{Key: k, Entries: m[k]})
	}
	return out
}

// FindEntry looks up a corpus entry by path and format.
func FindEntry(path, format string) (fqx.Entry, bool) {
	c := Corpus()
	i := sort.Search(len(c), func(i int) bool {
		if c[i].Path != path {
			return c[i].Path >= path
		}
		return c[i].Format >= format
	})
	if i < len(c) && c[i].Path == path && c[i].Format == format {
		return c[i], true
	}
	return fqx.Entry{}, false
}

// Mutation is one member of the byte-level mutation family (the family of
// C06, sampled here).
type Mutation struct {
	Kind string `json:"kind"` // none | trunc | setbyte | flipbit | satur | dup | del
	Off  int    `json:"off,omitempty"`
	Val  int    `json:"val,omitempty"`
	N    int    `json:"n,omitempty"`
}

// Apply returns a mutated copy of data (data itself is never modified).
func (m Mutation) Apply(data []byte) []byte {
	L := len(data)
	cp := func() []byte { return append([]byte(nil), data...) }
	switch m.Kind {
	case "trunc":
		if m.Off >= 0 && m.Off <= L {
			return cp()[:m.Off]
		}
	case "setbyte":
		if m.Off >= 0 && m.Off < L {
			b := cp()
			switch m.Val {
			case 0:
				b[m.Off] = 0x00
			case 1:
				b[m.Off] = 0xff
			case 2:
				b[m.Off] = 0x7f
			case 3:
				b[m.Off] = 0x80
			case 4:
				b[m.Off]++
			default:
				b[m.Off]--
			}
			return b
		}
	case "flipbit":
		if m.Off >= 0 && m.Off < L*8 {
			b := cp()
			b[m.Off>>3] ^= 0x80 >> uint(m.Off&7)
			return b
		}
	case "satur":
		// aligned window of N (2,4,8) bytes at Off set to a boundary value
		if m.N > 0 && m.Off >= 0 && m.Off+m.N <= L {
			b := cp()
			w := b[m.Off : m.Off+m.N]
			put := func(v uint64, le bool) {
				for i := range w {
					sh := uint(len(w)-1-i) * 8
					if le {
						sh = uint(i) * 8
					}
					w[i] = byte(v >> sh)
				}
			}
			max := ^uint64(0)
			if m.N < 8 {
				max = (uint64(1) << (uint(m.N) * 8)) - 1
			}
			switch m.Val {
			case 0:
				put(0, false)
			case 1:
				put(max, false)
			case 2:
				put(max-1, false)
			case 3:
				put(max-1, true)
			case 4:
				put(uint64(L+1), false)
			case 5:
				put(uint64(L+1), true)
			case 6:
				put(uint64(L-1), false)
			case 7:
				put(uint64(L-1), true)
			case 8:
				put(1, false)
			default:
				put(1, true)
			}
			return b
		}
	case "dup":
		if m.N > 0 && m.Off >= 0 && m.Off+m.N <= L {
			b := make([]byte, 0, L+m.N)
			b = append(b, data[:m.Off+m.N]...)
			b = append(b, data[m.Off:m.Off+m.N]...)
			b = append(b, data[m.Off+m.N:]...)
			return b
		}
	case "del":
		if m.N > 0 && m.Off >= 0 && m.Off+m.N <= L {
			b := make([]byte, 0, L-m.N)
			b = append(b, data[:m.Off]...)
			b = append(b, data[m.Off+m.N:]...)
			return b
		}
	}
	return cp()
}

// DrawMutation draws a mutation for a file of the given size.  Offsets are
// biased towards the head of the file, where headers and length fields live.
func DrawMutation(rt *rapid.T, size int) Mutation {
	if size == 0 {
		return Mutation{Kind: "none"}
	}
	off := func(limit int) int {
		if limit <= 0 {
			return 0
		}
		return rapid.OneOf(
			rapid.IntRange(0, min(limit, 64)),
			rapid.IntRange(0, min(limit, 512)),
			rapid.IntRange(0, limit),
		).Draw(rt, "off")
	}
	switch rapid.SampledFrom([]string{"trunc", "trunc", "setbyte", "setbyte", "flipbit", "flipbit", "satur", "satur", "dup", "del"}).Draw(rt, "mut") {
	case "trunc":
		return Mutation{Kind: "trunc", Off: off(size)}
	case "setbyte":
		return Mutation{Kind: "setbyte", Off: off(size - 1), Val: rapid.IntRange(0, 5).Draw(rt, "val")}
	case "flipbit":
		return Mutation{Kind: "flipbit", Off: off(size-1)*8 + rapid.IntRange(0, 7).Draw(rt, "bit")}
	case "satur":
		n := rapid.SampledFrom([]int{2, 4, 8}).Draw(rt, "width")
		if n > size {
			return Mutation{Kind: "trunc", Off: off(size)}
		}
		o := off(size-n) / n * n
		return Mutation{Kind: "satur", Off: o, N: n, Val: rapid.IntRange(0, 9).Draw(rt, "val")}
	case "dup", "del":
		kind := "dup"
		if rapid.Bool().Draw(rt, "isdel") {
			kind = "del"
		}
		n := rapid.SampledFrom([]int{1, 4, 16, 512}).Draw(rt, "block")
		if n > size {
			n = 1
		}
		o := off(size-n) / n * n
		return Mutation{Kind: kind, Off: o, N: n}
	}
	return Mutation{Kind: "none"}
}

// UniformIndex draws an index in [0, n) without rapid's bias towards small
// values (IntRange favours the low end, which would favour the formats that
// sort first): a 64 bit draw is scrambled before it is reduced.
func UniformIndex(rt *rapid.T, label string, n int) int {
	if n <= 1 {
		return 0
	}
	x := rapid.Uint64().Draw(rt, label)
	x += 0x9e3779b97f4a7c15
	x = (x ^ (x >> 30)) * 0xbf58476d1ce4e5b9
	x = (x ^ (x >> 27)) * 0x94d049bb133111eb
	x ^= x >> 31
	return int(x % uint64(n))
}
