package treegen

import (
	"bytes"
	"context"
	"encoding/hex"
	"fmt"
	"io"
	"strings"

	"github.com/wader/fq/pkg/bitio"
	"github.com/wader/fq/pkg/decode"
	"pgregory.net/rapid"
)

// Op is one instruction of a generated decoder program: a call of the public
// decode API.  Programs are JSON-serialisable (they are the replay case).
type Op struct {
	K    string  `json:"k"`
	Name string  `json:"name,omitempty"`
	N    int64   `json:"n,omitempty"`    // bits (fields, windows, lengths), bytes (utf8), delta (seekrel)
	Off  int64   `json:"off,omitempty"`  // first bit (range ops), target (seekabs)
	Kids []*Op   `json:"kids,omitempty"` // body of struct/array/window/seek-with-restore/nested root
	Fmts [][]*Op `json:"fmts,omitempty"` // the formats of the group of a nested-format op
	Arr  bool    `json:"arr,omitempty"`  // nested format roots are arrays
	Hex  string  `json:"hex,omitempty"`  // content of a nested buffer
	NB   int64   `json:"nb,omitempty"`   // bit length of the nested buffer
}

// Program is a top-level decode: input, options and the group of formats.
type Program struct {
	Input string  `json:"input"` // hex
	NBits int64   `json:"nbits"`
	Force bool    `json:"force,omitempty"`
	Arr   bool    `json:"arr,omitempty"` // top-level format roots are arrays
	Fmts  [][]*Op `json:"fmts"`
}

func (p *Program) Data() []byte {
	b, _ := hex.DecodeString(p.Input)
	return b
}

// ReaderXor is the transform FieldFormatReaderLen's reader function applies to
// the parent bytes: the nested buffer is known to the reference interpreter.
const ReaderXor = 0x5a

// ---------------------------------------------------------------------------
// running a program with fq

func groupOf(fmts [][]*Op, arr bool) *decode.Group {
	g := &decode.Group{Name: "verif_group"}
	for i, body := range fmts {
		body := body
		g.Formats = append(g.Formats, &decode.Format{
			Name:        fmt.Sprintf("verif_sub%d", i),
			Description: "generated decoder",
			RootArray:   arr,
			DecodeFn: func(d *decode.D) any {
				execFQ(d, body)
				return nil
			},
		})
	}
	return g
}

func nestedReader(op *Op) bitio.ReaderAtSeeker {
	b, _ := hex.DecodeString(op.Hex)
	return bitio.NewBitReader(b, op.NB)
}

func execFQ(d *decode.D, ops []*Op) {
	for _, op := range ops {
		op := op
		body := func(d *decode.D) { execFQ(d, op.Kids) }
		switch op.K {
		case "u":
			d.FieldU(op.Name, int(op.N))
		case "s":
			d.FieldS(op.Name, int(op.N))
		case "bool":
			d.FieldBool(op.Name)
		case "raw":
			d.FieldRawLen(op.Name, op.N)
		case "utf8":
			d.FieldUTF8(op.Name, int(op.N))
		case "val":
			d.FieldValueUint(op.Name, 7)
		case "struct":
			d.FieldStruct(op.Name, body)
		case "array":
			d.FieldArray(op.Name, body)
		case "seekrel":
			d.SeekRel(op.N)
		case "seekabs":
			d.SeekAbs(op.Off)
		case "seekrel_fn":
			d.SeekRel(op.N, body)
		case "seekabs_fn":
			d.SeekAbs(op.Off, body)
		case "framed":
			d.FramedFn(op.N, body)
		case "limited":
			d.LimitedFn(op.N, body)
		case "range":
			d.RangeFn(op.Off, op.N, body)
		case "fmt":
			d.FieldFormat(op.Name, groupOf(op.Fmts, op.Arr), nil)
		case "fmt_or_raw":
			d.FieldFormatOrRaw(op.Name, groupOf(op.Fmts, op.Arr), nil)
		case "fmt_inline":
			d.Format(groupOf(op.Fmts, op.Arr), nil)
		case "fmtlen":
			d.FieldFormatLen(op.Name, op.N, groupOf(op.Fmts, op.Arr), nil)
		case "fmtlen_or_raw":
			d.FieldFormatOrRawLen(op.Name, op.N, groupOf(op.Fmts, op.Arr), nil)
		case "fmtrange":
			d.FieldFormatRange(op.Name, op.Off, op.N, groupOf(op.Fmts, op.Arr), nil)
		case "fmtbuf":
			d.FieldFormatBitBuf(op.Name, nestedReader(op), groupOf(op.Fmts, op.Arr), nil)
		case "fmtreader":
			d.FieldFormatReaderLen(op.Name, op.N, func(r io.Reader) (io.ReadCloser, error) {
				b, err := io.ReadAll(r)
				if err != nil {
					return nil, err
				}
				for i := range b {
					b[i] ^= ReaderXor
				}
				return io.NopCloser(bytes.NewReader(b)), nil
			}, groupOf(op.Fmts, op.Arr))
		case "rootbuf":
			d.FieldRootBitBuf(op.Name, nestedReader(op))
		case "structroot":
			d.FieldStructRootBitBufFn(op.Name, nestedReader(op), body)
		case "arrayroot":
			d.FieldArrayRootBitBufFn(op.Name, nestedReader(op), body)
		case "errorf":
			d.Errorf("generated error")
		case "fatalf":
			d.Fatalf("generated fatal error")
		default:
			panic("treegen: unknown op " + op.K)
		}
	}
}

// RunFQ decodes the program's input with the program as the decoder, like
// fq's top level decode does (root, gap filling).
func RunFQ(p *Program) (*decode.Value, error) {
	br := bitio.NewBitReader(p.Data(), p.NBits)
	v, _, err := decode.Decode(context.Background(), br, groupOf(p.Fmts, p.Arr), decode.Options{
		IsRoot: true, FillGaps: true, Force: p.Force, Description: "verif",
	})
	return v, err
}

// ---------------------------------------------------------------------------
// generator

type genState struct {
	rt     *rapid.T
	budget int
	seq    int
}

func (g *genState) name() string {
	// mostly fresh names; sometimes one of a small pool so that duplicate
	// names occur (never gapN: that is the name space of gap fields)
	if rapid.IntRange(0, 11).Draw(g.rt, "namepool") == 0 {
		return rapid.SampledFrom([]string{"a", "b", "c"}).Draw(g.rt, "name")
	}
	g.seq++
	return fmt.Sprintf("f%d", g.seq)
}

var widthGen = rapid.OneOf(
	rapid.Int64Range(1, 8),
	rapid.Int64Range(1, 24),
	rapid.SampledFrom([]int64{1, 7, 8, 9, 16, 31, 32, 33, 63, 64}),
)

var lenGen = rapid.OneOf(
	rapid.Int64Range(0, 16),
	rapid.Int64Range(0, 64),
	rapid.Int64Range(0, 300),
	rapid.SampledFrom([]int64{0, 1, 7, 8, 9, 16, 24, 32}),
)

func (g *genState) nested(op *Op) {
	n := rapid.IntRange(0, 12).Draw(g.rt, "nestedbytes")
	b := rapid.SliceOfN(rapid.Byte(), n, n).Draw(g.rt, "nested")
	op.Hex = hex.EncodeToString(b)
	op.NB = int64(n) * 8
	if n > 0 && rapid.Bool().Draw(g.rt, "nestedcut") {
		op.NB = rapid.Int64Range(0, int64(n)*8).Draw(g.rt, "nestednb")
	}
}

func (g *genState) fmts(depth int) [][]*Op {
	n := 1
	if rapid.IntRange(0, 4).Draw(g.rt, "twofmts") == 0 {
		n = 2
	}
	var out [][]*Op
	for i := 0; i < n; i++ {
		out = append(out, g.ops(depth-1, rapid.IntRange(0, 5).Draw(g.rt, "fmtops")))
	}
	return out
}

var leafKinds = []string{"u", "u", "u", "u", "s", "bool", "bool", "raw", "raw", "utf8", "val"}
var allKinds = append(append([]string{}, leafKinds...),
	"u", "raw", "bool",
	"struct", "struct", "struct", "array", "array",
	"seekrel", "seekabs", "seekrel_fn", "seekabs_fn",
	"framed", "limited", "range",
	"fmt", "fmt_or_raw", "fmt_inline", "fmtlen", "fmtlen", "fmtlen_or_raw", "fmtrange",
	"fmtbuf", "fmtreader", "rootbuf", "structroot", "arrayroot",
	"errorf", "fatalf",
	// a length delimited nested decode whose decoder skips its first bits
	// (leading gap of a decode that does not start at bit 0)
	"fmtlen_skip", "fmtrange_skip",
)

func (g *genState) ops(depth, n int) []*Op {
	var out []*Op
	for i := 0; i < n && g.budget > 0; i++ {
		g.budget--
		kinds := allKinds
		if depth <= 0 {
			kinds = leafKinds
		}
		k := rapid.SampledFrom(kinds).Draw(g.rt, "op")
		op := &Op{K: k}
		sub := func() []*Op { return g.ops(depth-1, rapid.IntRange(0, 5).Draw(g.rt, "nkids")) }
		switch k {
		case "u", "s":
			op.Name, op.N = g.name(), widthGen.Draw(g.rt, "bits")
		case "bool", "val":
			op.Name = g.name()
		case "raw":
			op.Name, op.N = g.name(), lenGen.Draw(g.rt, "rawbits")
		case "utf8":
			op.Name, op.N = g.name(), rapid.Int64Range(0, 6).Draw(g.rt, "bytes")
		case "struct", "array":
			op.Name, op.Kids = g.name(), sub()
		case "seekrel":
			op.N = rapid.OneOf(rapid.Int64Range(-16, 32), rapid.Int64Range(-64, 600)).Draw(g.rt, "delta")
		case "seekabs":
			op.Off = rapid.OneOf(rapid.Int64Range(0, 64), rapid.Int64Range(0, 600)).Draw(g.rt, "target")
		case "seekrel_fn":
			op.N, op.Kids = rapid.Int64Range(-32, 64).Draw(g.rt, "delta"), sub()
		case "seekabs_fn":
			op.Off, op.Kids = rapid.OneOf(rapid.Int64Range(0, 64), rapid.Int64Range(0, 600)).Draw(g.rt, "target"), sub()
		case "framed", "limited":
			op.N, op.Kids = lenGen.Draw(g.rt, "window"), sub()
		case "range":
			op.Off, op.N, op.Kids = rapid.Int64Range(0, 128).Draw(g.rt, "first"), lenGen.Draw(g.rt, "window"), sub()
		case "fmt", "fmt_or_raw", "fmt_inline":
			op.Name, op.Fmts, op.Arr = g.name(), g.fmts(depth), rapid.IntRange(0, 5).Draw(g.rt, "rootarr") == 0
		case "fmtlen", "fmtlen_or_raw":
			op.Name, op.N, op.Fmts, op.Arr = g.name(), lenGen.Draw(g.rt, "fmtlen"), g.fmts(depth), rapid.IntRange(0, 5).Draw(g.rt, "rootarr") == 0
		case "fmtrange":
			op.Name, op.Off, op.N, op.Fmts = g.name(), rapid.Int64Range(0, 128).Draw(g.rt, "first"), lenGen.Draw(g.rt, "fmtlen"), g.fmts(depth)
		case "fmtlen_skip", "fmtrange_skip":
			op.K = strings.TrimSuffix(k, "_skip")
			op.Name, op.N, op.Fmts = g.name(), rapid.Int64Range(8, 80).Draw(g.rt, "fmtlen"), g.fmts(depth)
			if op.K == "fmtrange" {
				op.Off = rapid.Int64Range(1, 64).Draw(g.rt, "first")
			}
			skip := &Op{K: "seekrel", N: rapid.Int64Range(1, 12).Draw(g.rt, "skip")}
			if rapid.Bool().Draw(g.rt, "skipabs") {
				skip = &Op{K: "seekabs", Off: skip.N}
			}
			lead := []*Op{skip, {K: "u", Name: g.name(), N: rapid.Int64Range(1, 8).Draw(g.rt, "bits")}}
			op.Fmts[len(op.Fmts)-1] = append(lead, op.Fmts[len(op.Fmts)-1]...)
		case "fmtbuf":
			op.Name, op.Fmts, op.Arr = g.name(), g.fmts(depth), rapid.IntRange(0, 5).Draw(g.rt, "rootarr") == 0
			g.nested(op)
		case "fmtreader":
			op.Name, op.N, op.Fmts = g.name(), lenGen.Draw(g.rt, "readerlen"), g.fmts(depth)
		case "rootbuf":
			op.Name = g.name()
			g.nested(op)
		case "structroot", "arrayroot":
			op.Name, op.Kids = g.name(), sub()
			g.nested(op)
		}
		out = append(out, op)
	}
	return out
}

// DrawProgram draws a decoder program and its input (at most maxOps
// instructions, input of at most maxBytes bytes whose bit length need not be
// a multiple of eight).
func DrawProgram(rt *rapid.T, maxOps, maxBytes int) *Program {
	g := &genState{rt: rt, budget: rapid.IntRange(1, maxOps).Draw(rt, "nops")}
	p := &Program{}
	n := rapid.OneOf(rapid.IntRange(0, 8), rapid.IntRange(0, maxBytes)).Draw(rt, "inputbytes")
	var b []byte
	switch rapid.IntRange(0, 2).Draw(rt, "fill") {
	case 0:
		b = rapid.SliceOfN(rapid.Byte(), n, n).Draw(rt, "input")
	case 1:
		b = make([]byte, n)
		for i := range b {
			b[i] = byte(i*37 + 11)
		}
	default:
		b = bytes.Repeat([]byte{0xff}, n)
	}
	p.Input = hex.EncodeToString(b)
	p.NBits = int64(n) * 8
	if n > 0 && rapid.IntRange(0, 3).Draw(rt, "cut") == 0 {
		p.NBits -= rapid.Int64Range(0, 7).Draw(rt, "cutbits")
	}
	p.Force = rapid.IntRange(0, 4).Draw(rt, "force") == 0
	p.Arr = rapid.IntRange(0, 6).Draw(rt, "rootarr") == 0
	depth := rapid.IntRange(1, 4).Draw(rt, "depth")
	nf := 1
	if rapid.IntRange(0, 5).Draw(rt, "twofmts") == 0 {
		nf = 2
	}
	for i := 0; i < nf; i++ {
		n := g.budget
		if i < nf-1 {
			n = rapid.IntRange(0, g.budget/2+1).Draw(rt, "firstfmtops")
			saved := g.budget - n
			g.budget = n
			p.Fmts = append(p.Fmts, g.ops(depth, n))
			g.budget += saved
			continue
		}
		p.Fmts = append(p.Fmts, g.ops(depth, n))
	}
	return p
}
