package treegen

import (
	"fmt"

	"github.com/wader/fq/internal/bitiox"
	"github.com/wader/fq/pkg/bitio"
	"github.com/wader/fq/pkg/decode"
	"github.com/wader/fq/pkg/ranges"
	"github.com/wader/fq/pkg/scalar"
)

// Node is one value of a decode tree together with the facts every tree
// oracle needs (computed by the harness's own walk over Compound.Children, not
// by fq's Walk* functions).
type Node struct {
	V       *decode.Value
	Parent  *Node
	BufRoot *Node // nearest ancestor-or-self that is a buffer root (IsRoot, or the top value)
	Kids    []*Node
	Depth   int
	Pos     int // position among the parent's children
}

func (n *Node) Compound() *decode.Compound {
	c, _ := n.V.V.(*decode.Compound)
	return c
}

func (n *Node) IsCompound() bool { return n.Compound() != nil }

func (n *Node) flags() scalar.Flags {
	if s, ok := n.V.V.(scalar.Scalarable); ok {
		return s.ScalarFlags()
	}
	return 0
}

func (n *Node) IsGap() bool       { return n.flags().IsGap() }
func (n *Node) IsSynthetic() bool { return n.flags().IsSynthetic() }

// IsBufRoot: the value starts a new buffer (or is the top of the tree).
func (n *Node) IsBufRoot() bool { return n.BufRoot == n }

// Inner is the range of the value inside its own buffer.
func (n *Node) Inner() ranges.Range { return n.V.InnerRange() }

// Path is a readable path of names/indexes from the top.
func (n *Node) Path() string {
	if n.Parent == nil {
		return "."
	}
	p := n.Parent.Path()
	if p == "." {
		p = ""
	}
	if pc := n.Parent.Compound(); pc != nil && pc.IsArray {
		return fmt.Sprintf("%s[%d]", p, n.Pos)
	}
	return p + "." + n.V.Name
}

// Tree is a walked decode tree.
type Tree struct {
	Root *Node
	All  []*Node // pre-order, crossing into nested buffers
	lens map[bitio.ReaderAtSeeker]int64
}

// Build walks v (normally the top value returned by decode.Decode).
func Build(v *decode.Value) *Tree {
	t := &Tree{lens: map[bitio.ReaderAtSeeker]int64{}}
	var rec func(v *decode.Value, parent *Node, depth, pos int) *Node
	rec = func(v *decode.Value, parent *Node, depth, pos int) *Node {
		n := &Node{V: v, Parent: parent, Depth: depth, Pos: pos}
		if parent == nil || v.IsRoot {
			n.BufRoot = n
		} else {
			n.BufRoot = parent.BufRoot
		}
		t.All = append(t.All, n)
		if c := n.Compound(); c != nil {
			for i, ch := range c.Children {
				n.Kids = append(n.Kids, rec(ch, n, depth+1, i))
			}
		}
		return n
	}
	t.Root = rec(v, nil, 0, 0)
	return t
}

// ReaderLen is the bit length of a value's buffer (-1 if it cannot be found).
func (t *Tree) ReaderLen(r bitio.ReaderAtSeeker) int64 {
	if r == nil {
		return -1
	}
	if l, ok := t.lens[r]; ok {
		return l
	}
	l, err := bitiox.Len(r)
	if err != nil {
		l = -1
	}
	t.lens[r] = l
	return l
}

// SameBufferLeaves returns the non-compound values below root that belong to
// root's buffer (nested buffer roots and everything below them are left out,
// root itself is never included).
func SameBufferLeaves(root *Node) []*Node {
	var out []*Node
	var rec func(n *Node)
	rec = func(n *Node) {
		for _, k := range n.Kids {
			if k.V.IsRoot {
				continue
			}
			if k.IsCompound() {
				rec(k)
			} else {
				out = append(out, k)
			}
		}
	}
	rec(root)
	return out
}

// ReadBits reads r[start:start+n) of a bit reader into a left-aligned byte
// slice with one bulk ReadBitsAt loop (no cursor of r is moved).
func ReadBits(r bitio.ReaderAt, start, n int64) ([]byte, error) {
	buf := make([]byte, (n+7)/8)
	if n == 0 {
		return buf, nil
	}
	_, err := bitio.ReadAtFull(r, buf, n, start)
	return buf, err
}

// Bit returns bit i (0 = most significant bit of byte 0) of b.
func Bit(b []byte, i int64) byte { return (b[i>>3] >> (7 - uint(i&7))) & 1 }

// SliceBits extracts bits [start, start+n) of data into a left-aligned,
// zero-padded byte slice by the harness's own arithmetic.
func SliceBits(data []byte, start, n int64) []byte {
	out := make([]byte, (n+7)/8)
	for i := int64(0); i < n; i++ {
		if Bit(data, start+i) != 0 {
			out[i>>3] |= 0x80 >> uint(i&7)
		}
	}
	return out
}
