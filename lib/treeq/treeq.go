// Package treeq lets a check look at a decode tree it obtained in Go
// (decode.Decode, treegen) through fq's jq layer: the top value is wrapped as
// the jq decode value fq itself would hand to a query, and one long-running
// evaluation answers many inputs (the ~20-60 ms compile of fq's bundled jq is
// paid once per Stream, not once per tree).
//
// Used by C05 (tobits/tobytes of every value) and C12 (paths and navigation).
package treeq

import (
	"bytes"
	"context"
	"fmt"
	"sync"

	"github.com/wader/fq/internal/bitiox"
	"github.com/wader/fq/pkg/bitio"
	"github.com/wader/fq/pkg/decode"
	"github.com/wader/fq/pkg/interp"
	"github.com/wader/fq/pkg/ranges"
	"github.com/wader/fq/verif/lib/fqx"
	"github.com/wader/fq/verif/lib/treegen"
	"github.com/wader/gojq"
)

var (
	pendingMu sync.Mutex
	pending   any
)

func init() {
	// the only way to hand a new input to a running jq program
	interp.RegisterFunc0("_verif_treeq_next", func(_ *interp.Interp, _ any) any {
		pendingMu.Lock()
		defer pendingMu.Unlock()
		return pending
	})
}

// RootHolder returns a jq value h such that `h[0]` is the top value of the
// decode tree as the jq decode value fq's own decode function returns for it.
//
// Only the constructors for compound decode values are exported by
// pkg/interp.  A struct or array top value is wrapped directly; a scalar top
// value (formats like bytes, json, xml) is reached through a throw-away array
// value that merely lists it as its child: fq builds the jq value of a child
// itself.  The top value is not modified (its Parent stays nil).
func RootHolder(top *decode.Value) any {
	if c, ok := top.V.(*decode.Compound); ok {
		if c.IsArray {
			return []any{interp.NewArrayDecodeValue(top, nil, c)}
		}
		return []any{interp.NewStructDecodeValue(top, nil, c)}
	}
	hc := &decode.Compound{IsArray: true, Children: []*decode.Value{top}}
	holder := &decode.Value{V: hc, Name: "verif_holder", RootReader: top.RootReader, Range: top.Range, IsRoot: true, Index: -1}
	return interp.NewArrayDecodeValue(holder, nil, hc)
}

// PathOf is the jq path of a node as the harness derives it from its own
// walk: the name under a struct parent, the position under an array parent.
func PathOf(n *treegen.Node) []any {
	depth := 0
	for m := n; m.Parent != nil; m = m.Parent {
		depth++
	}
	p := make([]any, depth)
	for m := n; m.Parent != nil; m = m.Parent {
		depth--
		if pc := m.Parent.Compound(); pc != nil && pc.IsArray {
			p[depth] = m.Pos
		} else {
			p[depth] = m.V.Name
		}
	}
	return p
}

// DecodeValueOf returns the decode.Value behind a jq value (nil if v is not a
// decode value).
func DecodeValueOf(v any) *decode.Value {
	if dv, ok := v.(interp.DecodeValue); ok {
		return dv.DecodeValue()
	}
	return nil
}

// Stream is one long-running evaluation of
//
//	<options set up like fq's main does> | PRELUDE range(inf) | _verif_treeq_next | [ BODY ]
//
// Next(input) returns the array of BODY's outputs for that input.  BODY must
// catch its own errors; an uncaught error ends the stream (Next reports it and
// the following Next starts a fresh interpreter).
type Stream struct {
	Prelude string // jq evaluated once per interpreter, e.g. "options({...}) as $o |"
	Body    string
	Restart int // inputs after which a fresh interpreter is started (default 2000)
	// MaxWork: a fresh interpreter is also started once the work units handed
	// to NextW since the last start exceed this (default 20000).  gojq's
	// variable frame of a long-running evaluation only ever grows (one slot
	// block per function call that is not backtracked over): a million rows
	// through one interpreter hold gigabytes.
	MaxWork int
	work    int
	x       *fqx.Interp
	iter    gojq.Iter
	n       int
	Opened  int
}

func NewStream(body string) *Stream { return &Stream{Body: body} }

func (s *Stream) Close() {
	if s.x != nil {
		s.x.Close()
	}
	s.x, s.iter = nil, nil
}

func (s *Stream) open() error {
	s.Close()
	x, err := fqx.NewInterp()
	if err != nil {
		return err
	}
	// outside of Main the options stack is empty; fq's main pushes the built
	// in defaults first, so do the same (otherwise bits_format is "" etc.)
	prog := "_options_stack([_opt_build_default_fixed]) as $_\n| " + s.Prelude + "\nrange(1000000000)\n| _verif_treeq_next\n| [ " + s.Body + " ]"
	iter, err := x.I.Eval(context.Background(), nil, prog, interp.EvalOpts{})
	if err != nil {
		x.Close()
		return fmt.Errorf("compile: %w", err)
	}
	s.x, s.iter, s.n, s.work = x, iter, 0, 0
	s.Opened++
	return nil
}

// Next evaluates BODY with the given input.
func (s *Stream) Next(input any) ([]any, error) { return s.NextW(input, 1) }

// NextW is Next with the number of work units (rows, values) of this input.
func (s *Stream) NextW(input any, work int) ([]any, error) {
	restart := s.Restart
	if restart <= 0 {
		restart = 2000
	}
	maxWork := s.MaxWork
	if maxWork <= 0 {
		maxWork = 20000
	}
	if s.iter == nil || s.n >= restart || (s.work > 0 && s.work+work > maxWork) {
		if err := s.open(); err != nil {
			return nil, err
		}
	}
	s.work += work
	pendingMu.Lock()
	pending = input
	pendingMu.Unlock()
	s.n++
	v, ok := s.iter.Next()
	pendingMu.Lock()
	pending = nil
	pendingMu.Unlock()
	if !ok {
		s.Close()
		return nil, fmt.Errorf("evaluation ended")
	}
	if e, isErr := v.(error); isErr {
		s.Close()
		return nil, fmt.Errorf("uncaught jq error: %v", e)
	}
	a, isArr := v.([]any)
	if !isArr {
		return nil, fmt.Errorf("unexpected output %T", v)
	}
	return a, nil
}

// BinaryBits reads the bits a jq binary (or anything fq converts to one)
// stands for, without padding: the range of its reader, by one bulk read.
func BinaryBits(v any) (b []byte, nBits int64, err error) {
	br, err := interp.ToBitReader(v)
	if err != nil {
		return nil, 0, err
	}
	n, err := bitiox.Len(br)
	if err != nil {
		return nil, 0, err
	}
	b, err = treegen.ReadBits(br, 0, n)
	return b, n, err
}

// RawOutput is what fq writes for v when it is an output of the query and
// standard output is not a terminal (Binary.Display with raw output).
func RawOutput(v any) ([]byte, error) {
	d, ok := v.(interp.Display)
	if !ok {
		return nil, fmt.Errorf("%T cannot be displayed", v)
	}
	var buf bytes.Buffer
	if err := d.Display(&buf, &interp.Options{RawOutput: true}); err != nil {
		return nil, err
	}
	return buf.Bytes(), nil
}

// IsBinary reports whether v is a jq binary.
func IsBinary(v any) bool {
	_, ok := v.(interp.Binary)
	return ok
}

// ---------------------------------------------------------------------------
// decodes of a sub-range of a larger buffer (what `binary[a:b] | format` and
// `value | tobytesrange | format` do: decode.Options.Range)

// Embed returns a buffer of preBits filler bits, then the nBits bits of data,
// then sufBits filler bits (filler derived from seed), and its bit length.
func Embed(data []byte, nBits, preBits, sufBits int64, seed uint64) ([]byte, int64) {
	total := preBits + nBits + sufBits
	out := make([]byte, (total+7)/8)
	x := seed
	for i := range out {
		x += 0x9e3779b97f4a7c15
		z := (x ^ (x >> 30)) * 0xbf58476d1ce4e5b9
		z = (z ^ (z >> 27)) * 0x94d049bb133111eb
		out[i] = byte(z ^ (z >> 31))
	}
	if preBits%8 == 0 {
		// whole bytes first, then fix the last partial byte below
		copy(out[preBits/8:], data[:nBits/8])
		for i := nBits / 8 * 8; i < nBits; i++ {
			setBit(out, preBits+i, treegen.Bit(data, i))
		}
	} else {
		for i := int64(0); i < nBits; i++ {
			setBit(out, preBits+i, treegen.Bit(data, i))
		}
	}
	// bits behind the end of the buffer are zero
	for i := total; i < int64(len(out))*8; i++ {
		setBit(out, i, 0)
	}
	return out, total
}

func setBit(b []byte, i int64, v byte) {
	m := byte(0x80) >> uint(i&7)
	if v != 0 {
		b[i>>3] |= m
	} else {
		b[i>>3] &^= m
	}
}

// DecodeRange decodes bits [start, start+n) of buf like fq's _decode does for
// a binary whose range does not cover its whole buffer (root, gap filling).
func DecodeRange(buf []byte, bufBits int64, format string, start, n int64, force bool) (top *decode.Value, err error) {
	g, err := interp.DefaultRegistry.Group(format)
	if err != nil {
		return nil, err
	}
	defer func() {
		if r := recover(); r != nil {
			top, err = nil, fmt.Errorf("decoder panic: %v", r)
		}
	}()
	br := bitio.NewBitReader(buf, bufBits)
	top, _, err = decode.Decode(context.Background(), br, g, decode.Options{
		IsRoot: true, FillGaps: true, Force: force, Description: "verif",
		Range: ranges.Range{Start: start, Len: n},
	})
	return top, err
}

// BinaryOf is the jq binary (byte units) over buf.
func BinaryOf(buf []byte, bufBits int64) (any, error) {
	return interp.NewBinaryFromBitReader(bitio.NewBitReader(buf, bufBits), 8, 0)
}
