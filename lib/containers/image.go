package containers

import (
	"bytes"
	"compress/zlib"
	"encoding/binary"
	"encoding/hex"
	"fmt"
	"hash/crc32"
	"image"
	"image/color"
	"image/gif"
	"image/png"
)

// ---------------------------------------------------------------------------
// PNG: image/png ("go") or a hand-written writer ("hand": filter type 0 on
// every row, any bit depth / colour type, several IDAT chunks), plus
// harness-appended ancillary chunks.

type PNGChunkSpec struct {
	Type    string `json:"type"`  // tEXt | zTXt | gAMA | pHYs | prVt (unknown private chunk)
	Where   string `json:"where"` // before_idat | after_idat
	Keyword string `json:"keyword,omitempty"`
	Text    string `json:"text,omitempty"`
	Level   int    `json:"level,omitempty"` // zTXt zlib level
	Data    string `json:"data,omitempty"`  // hex, for gAMA/pHYs/prVt
}

type PNGSpec struct {
	Writer    string         `json:"writer"` // go | hand
	W         int            `json:"w"`
	H         int            `json:"h"`
	ColorType int            `json:"color_type"` // 0 gray, 2 rgb, 3 palette, 4 gray+alpha, 6 rgba
	BitDepth  int            `json:"bit_depth"`
	PixSeed   uint64         `json:"pix_seed"`
	PixKind   string         `json:"pix_kind"` // random | flat | ramp
	NPalette  int            `json:"npalette,omitempty"`
	NTrns     int            `json:"ntrns,omitempty"` // palette entries with alpha (tRNS chunk)
	Level     int            `json:"level"`           // go: png.CompressionLevel (0,-1,-2,-3); hand: zlib level
	IDATSplit []int          `json:"idat_split,omitempty"`
	Chunks    []PNGChunkSpec `json:"chunks,omitempty"`
}

// PNGChunkInfo is one chunk as stored.
type PNGChunkInfo struct {
	Type   string
	Data   []byte
	CRC    uint32
	Offset int // of the length field
	// for zTXt
	Keyword string
	Text    string
	ZStart  int // file offset of the zlib stream (zTXt), else 0
}

type PNGInfo struct {
	Chunks   []PNGChunkInfo
	W, H     int
	BitDepth int
	Color    int
	Palette  [][3]byte
	Alphas   []byte
	RawLen   int    // length of the inflated IDAT stream
	Raw      []byte // hand writer only: the exact scanline bytes stored (with filter bytes)
}

func pngChunk(typ string, data []byte) []byte {
	out := make([]byte, 0, 12+len(data))
	out = binary.BigEndian.AppendUint32(out, uint32(len(data)))
	out = append(out, typ...)
	out = append(out, data...)
	out = binary.BigEndian.AppendUint32(out, crc32.ChecksumIEEE(out[4:]))
	return out
}

func zlibBytes(data []byte, level int) ([]byte, error) {
	var b bytes.Buffer
	w, err := zlib.NewWriterLevel(&b, level)
	if err != nil {
		return nil, err
	}
	if _, err := w.Write(data); err != nil {
		return nil, err
	}
	if err := w.Close(); err != nil {
		return nil, err
	}
	return b.Bytes(), nil
}

func channels(colorType int) int {
	switch colorType {
	case 0, 3:
		return 1
	case 4:
		return 2
	case 2:
		return 3
	case 6:
		return 4
	}
	return 0
}

func fillPix(kind string, seed uint64, n int) []byte {
	switch kind {
	case "flat":
		b := make([]byte, n)
		for i := range b {
			b[i] = byte(seed)
		}
		return b
	case "ramp":
		b := make([]byte, n)
		for i := range b {
			b[i] = byte(uint64(i) + seed)
		}
		return b
	}
	return RandBytes(seed, n)
}

func genPalette(seed uint64, n int) (color.Palette, [][3]byte) {
	raw := RandBytes(seed^0x5eed, n*3)
	p := make(color.Palette, n)
	out := make([][3]byte, n)
	for i := 0; i < n; i++ {
		out[i] = [3]byte{raw[i*3], raw[i*3+1], raw[i*3+2]}
		p[i] = color.NRGBA{raw[i*3], raw[i*3+1], raw[i*3+2], 255}
	}
	return p, out
}

// walkPNG splits a PNG byte stream into its chunks (harness-side framing only).
func walkPNG(b []byte) ([]PNGChunkInfo, error) {
	if len(b) < 8 {
		return nil, fmt.Errorf("short png")
	}
	var out []PNGChunkInfo
	p := 8
	for p < len(b) {
		if p+12 > len(b) {
			return nil, fmt.Errorf("short chunk")
		}
		l := int(binary.BigEndian.Uint32(b[p:]))
		if p+12+l > len(b) {
			return nil, fmt.Errorf("chunk overruns")
		}
		out = append(out, PNGChunkInfo{Type: string(b[p+4 : p+8]), Data: b[p+8 : p+8+l], CRC: binary.BigEndian.Uint32(b[p+8+l:]), Offset: p})
		p += 12 + l
	}
	return out, nil
}

func BuildPNG(s PNGSpec) ([]byte, *PNGInfo, error) { return BuildPNGZ(s, zlibBytes) }

// BuildPNGZ is BuildPNG with the zlib compressor of the hand writer and of the
// zTXt chunks supplied by the caller (the image/png writer keeps its own).
func BuildPNGZ(s PNGSpec, zlibBytes func(data []byte, level int) ([]byte, error)) ([]byte, *PNGInfo, error) {
	info := &PNGInfo{W: s.W, H: s.H}
	var base []PNGChunkInfo // chunks without the harness-appended ones
	switch s.Writer {
	case "go":
		var img image.Image
		r := image.Rect(0, 0, s.W, s.H)
		switch {
		case s.ColorType == 0 && s.BitDepth == 8:
			m := image.NewGray(r)
			copy(m.Pix, fillPix(s.PixKind, s.PixSeed, len(m.Pix)))
			img = m
			info.Color, info.BitDepth = 0, 8
		case s.ColorType == 0 && s.BitDepth == 16:
			m := image.NewGray16(r)
			copy(m.Pix, fillPix(s.PixKind, s.PixSeed, len(m.Pix)))
			img = m
			info.Color, info.BitDepth = 0, 16
		case s.ColorType == 2 && s.BitDepth == 8:
			m := image.NewNRGBA(r)
			copy(m.Pix, fillPix(s.PixKind, s.PixSeed, len(m.Pix)))
			for i := 3; i < len(m.Pix); i += 4 {
				m.Pix[i] = 0xff
			}
			img = m
			info.Color, info.BitDepth = 2, 8
		case s.ColorType == 2 && s.BitDepth == 16:
			m := image.NewNRGBA64(r)
			copy(m.Pix, fillPix(s.PixKind, s.PixSeed, len(m.Pix)))
			for i := 6; i < len(m.Pix); i += 8 {
				m.Pix[i], m.Pix[i+1] = 0xff, 0xff
			}
			img = m
			info.Color, info.BitDepth = 2, 16
		case s.ColorType == 6 && s.BitDepth == 8:
			m := image.NewNRGBA(r)
			copy(m.Pix, fillPix(s.PixKind, s.PixSeed, len(m.Pix)))
			m.Pix[3] = 0x7f // not opaque for sure
			img = m
			info.Color, info.BitDepth = 6, 8
		case s.ColorType == 6 && s.BitDepth == 16:
			m := image.NewNRGBA64(r)
			copy(m.Pix, fillPix(s.PixKind, s.PixSeed, len(m.Pix)))
			m.Pix[6] = 0x7f
			img = m
			info.Color, info.BitDepth = 6, 16
		case s.ColorType == 3:
			n := s.NPalette
			if n < 1 {
				n = 1
			}
			pal, rgb := genPalette(s.PixSeed, n)
			for i := 0; i < s.NTrns && i < n; i++ {
				c := pal[i].(color.NRGBA)
				c.A = byte(10 + i*3)
				pal[i] = c
				info.Alphas = append(info.Alphas, c.A)
			}
			// image/png writes tRNS up to the last non-opaque entry
			m := image.NewPaletted(r, pal)
			pix := fillPix(s.PixKind, s.PixSeed, len(m.Pix))
			for i := range pix {
				m.Pix[i] = byte(int(pix[i]) % n)
			}
			img = m
			info.Palette = rgb
			info.Color = 3
			switch {
			case n <= 2:
				info.BitDepth = 1
			case n <= 4:
				info.BitDepth = 2
			case n <= 16:
				info.BitDepth = 4
			default:
				info.BitDepth = 8
			}
		default:
			return nil, nil, fmt.Errorf("go png writer: unsupported colour type %d depth %d", s.ColorType, s.BitDepth)
		}
		var buf bytes.Buffer
		enc := png.Encoder{CompressionLevel: png.CompressionLevel(s.Level)}
		if err := enc.Encode(&buf, img); err != nil {
			return nil, nil, err
		}
		var err error
		base, err = walkPNG(buf.Bytes())
		if err != nil {
			return nil, nil, err
		}
	case "hand":
		ch := channels(s.ColorType)
		if ch == 0 {
			return nil, nil, fmt.Errorf("bad colour type")
		}
		rowBits := s.W * ch * s.BitDepth
		rowBytes := (rowBits + 7) / 8
		pix := fillPix(s.PixKind, s.PixSeed, rowBytes*s.H)
		if s.ColorType == 3 {
			// indices must stay inside the palette
			n := s.NPalette
			if n < 1 {
				n = 1
			}
			if s.BitDepth == 8 {
				for i := range pix {
					pix[i] = byte(int(pix[i]) % n)
				}
			} else {
				// pack samples below min(n, 2^depth), most significant first
				limit := min(n, 1<<uint(s.BitDepth))
				src := pix
				pix = make([]byte, len(src))
				per := 8 / s.BitDepth
				for i := range src {
					var b byte
					for k := 0; k < per; k++ {
						v := (int(src[i]) >> uint(k)) % limit
						b = b<<uint(s.BitDepth) | byte(v)
					}
					pix[i] = b
				}
			}
		}
		raw := make([]byte, 0, (rowBytes+1)*s.H)
		for y := 0; y < s.H; y++ {
			raw = append(raw, 0) // filter type none
			row := pix[y*rowBytes : (y+1)*rowBytes]
			if pad := rowBytes*8 - rowBits; pad > 0 && len(row) > 0 {
				row = append([]byte{}, row...)
				row[len(row)-1] &= 0xff << uint(pad) // unused low bits are zero
			}
			raw = append(raw, row...)
		}
		info.Raw = raw
		info.Color, info.BitDepth = s.ColorType, s.BitDepth
		ihdr := make([]byte, 13)
		binary.BigEndian.PutUint32(ihdr[0:], uint32(s.W))
		binary.BigEndian.PutUint32(ihdr[4:], uint32(s.H))
		ihdr[8], ihdr[9] = byte(s.BitDepth), byte(s.ColorType)
		base = append(base, PNGChunkInfo{Type: "IHDR", Data: ihdr})
		if s.ColorType == 3 {
			n := s.NPalette
			if n < 1 {
				n = 1
			}
			_, rgb := genPalette(s.PixSeed, n)
			info.Palette = rgb
			var pd []byte
			for _, c := range rgb {
				pd = append(pd, c[0], c[1], c[2])
			}
			base = append(base, PNGChunkInfo{Type: "PLTE", Data: pd})
			if s.NTrns > 0 {
				for i := 0; i < s.NTrns && i < n; i++ {
					info.Alphas = append(info.Alphas, byte(10+i*3))
				}
				base = append(base, PNGChunkInfo{Type: "tRNS", Data: info.Alphas})
			}
		}
		z, err := zlibBytes(raw, s.Level)
		if err != nil {
			return nil, nil, err
		}
		rest := z
		for _, n := range s.IDATSplit {
			if n <= 0 || n >= len(rest) {
				break
			}
			base = append(base, PNGChunkInfo{Type: "IDAT", Data: rest[:n]})
			rest = rest[n:]
		}
		base = append(base, PNGChunkInfo{Type: "IDAT", Data: rest})
		base = append(base, PNGChunkInfo{Type: "IEND"})
	default:
		return nil, nil, fmt.Errorf("unknown png writer %q", s.Writer)
	}
	ch := channels(info.Color)
	info.RawLen = s.H * (1 + (s.W*ch*info.BitDepth+7)/8)

	// harness-appended chunks
	mk := func(c PNGChunkSpec) (PNGChunkInfo, error) {
		switch c.Type {
		case "tEXt":
			d := append([]byte(c.Keyword), 0)
			d = append(d, c.Text...)
			return PNGChunkInfo{Type: "tEXt", Data: d, Keyword: c.Keyword, Text: c.Text}, nil
		case "zTXt":
			z, err := zlibBytes([]byte(c.Text), c.Level)
			if err != nil {
				return PNGChunkInfo{}, err
			}
			d := append([]byte(c.Keyword), 0, 0)
			zs := len(d)
			d = append(d, z...)
			return PNGChunkInfo{Type: "zTXt", Data: d, Keyword: c.Keyword, Text: c.Text, ZStart: zs}, nil
		default:
			d, _ := hex.DecodeString(c.Data)
			return PNGChunkInfo{Type: c.Type, Data: d}, nil
		}
	}
	var before, after []PNGChunkInfo
	for _, c := range s.Chunks {
		ci, err := mk(c)
		if err != nil {
			return nil, nil, err
		}
		if c.Where == "before_idat" {
			before = append(before, ci)
		} else {
			after = append(after, ci)
		}
	}
	var all []PNGChunkInfo
	seenIDAT := false
	for _, c := range base {
		if c.Type == "IDAT" && !seenIDAT {
			seenIDAT = true
			all = append(all, before...)
		}
		if c.Type == "IEND" {
			all = append(all, after...)
		}
		all = append(all, c)
	}
	out := []byte("\x89PNG\r\n\x1a\n")
	for i := range all {
		c := &all[i]
		c.Offset = len(out)
		b := pngChunk(c.Type, c.Data)
		c.CRC = binary.BigEndian.Uint32(b[len(b)-4:])
		if c.ZStart > 0 {
			c.ZStart += c.Offset + 8
		}
		out = append(out, b...)
	}
	info.Chunks = all
	return out, info, nil
}

// ---------------------------------------------------------------------------
// GIF (image/gif EncodeAll)

type GIFFrame struct {
	X        int    `json:"x"`
	Y        int    `json:"y"`
	W        int    `json:"w"`
	H        int    `json:"h"`
	Local    int    `json:"local,omitempty"` // >0: own palette with that many colours
	Delay    int    `json:"delay,omitempty"`
	Disposal int    `json:"disposal,omitempty"`
	PixSeed  uint64 `json:"pix_seed"`
	PixKind  string `json:"pix_kind"`
}

type GIFSpec struct {
	W          int        `json:"w"`
	H          int        `json:"h"`
	NGlobal    int        `json:"nglobal"` // 0: no global colour table
	Background int        `json:"background,omitempty"`
	LoopCount  int        `json:"loop_count"`
	PalSeed    uint64     `json:"pal_seed"`
	Frames     []GIFFrame `json:"frames"`
}

type GIFBlockInfo struct {
	Kind string // ext | image
	// ext
	Function int
	ExtData  []byte // concatenated sub-block data
	// image
	X, Y, W, H int
	Local      [][3]byte // padded local colour table, nil if none
	LocalBits  int       // value of the 3-bit size field + 1 (1 when no table)
	LitWidth   int
	Pix        []byte
}

type GIFInfo struct {
	W, H       int
	Global     [][3]byte // padded
	GlobalBits int
	Background int
	Blocks     []GIFBlockInfo
}

func log2ceil(n int) int { // size field value: table has 2^(v+1) entries
	v := 0
	for (1 << uint(v+1)) < n {
		v++
	}
	return v
}

func padTable(rgb [][3]byte) [][3]byte {
	n := 1 << uint(log2ceil(len(rgb))+1)
	out := append([][3]byte{}, rgb...)
	for len(out) < n {
		out = append(out, [3]byte{})
	}
	return out
}

func BuildGIF(s GIFSpec) ([]byte, *GIFInfo, error) {
	g := &gif.GIF{LoopCount: s.LoopCount}
	info := &GIFInfo{W: s.W, H: s.H, GlobalBits: 1}
	g.Config.Width, g.Config.Height = s.W, s.H
	var gpal color.Palette
	if s.NGlobal > 0 {
		var rgb [][3]byte
		gpal, rgb = genPalette(s.PalSeed, s.NGlobal)
		g.Config.ColorModel = gpal
		g.BackgroundIndex = byte(s.Background)
		info.Global = padTable(rgb)
		info.GlobalBits = log2ceil(s.NGlobal) + 1
		info.Background = s.Background
	}
	if len(s.Frames) > 1 && s.LoopCount >= 0 {
		d := append([]byte("NETSCAPE2.0"), 1, byte(s.LoopCount), byte(s.LoopCount>>8))
		info.Blocks = append(info.Blocks, GIFBlockInfo{Kind: "ext", Function: 0xff, ExtData: d})
	}
	for i, f := range s.Frames {
		var pal color.Palette
		bi := GIFBlockInfo{Kind: "image", X: f.X, Y: f.Y, W: f.W, H: f.H, LocalBits: 1}
		n := s.NGlobal
		if f.Local > 0 || s.NGlobal == 0 {
			n = f.Local
			if n < 1 {
				n = 2
			}
			var rgb [][3]byte
			pal, rgb = genPalette(s.PalSeed+uint64(i)+1, n)
			bi.Local = padTable(rgb)
			bi.LocalBits = log2ceil(n) + 1
		} else {
			pal = gpal
		}
		bi.LitWidth = log2ceil(n) + 1
		if bi.LitWidth < 2 {
			bi.LitWidth = 2
		}
		m := image.NewPaletted(image.Rect(f.X, f.Y, f.X+f.W, f.Y+f.H), pal)
		pix := fillPix(f.PixKind, f.PixSeed, len(m.Pix))
		for j := range pix {
			m.Pix[j] = byte(int(pix[j]) % n)
		}
		bi.Pix = append([]byte{}, m.Pix...)
		if f.Delay > 0 || f.Disposal != 0 {
			info.Blocks = append(info.Blocks, GIFBlockInfo{Kind: "ext", Function: 0xf9,
				ExtData: []byte{byte(f.Disposal << 2), byte(f.Delay), byte(f.Delay >> 8), 0}})
		}
		info.Blocks = append(info.Blocks, bi)
		g.Image = append(g.Image, m)
		g.Delay = append(g.Delay, f.Delay)
		g.Disposal = append(g.Disposal, byte(f.Disposal))
	}
	var buf bytes.Buffer
	if err := gif.EncodeAll(&buf, g); err != nil {
		return nil, nil, err
	}
	return buf.Bytes(), info, nil
}

// ---------------------------------------------------------------------------
// RIFF/WAVE (hand-written)

type WAVChunk struct {
	ID      string  `json:"id"`             // "fmt ", "data", "fact", "LIST", "junk" ...
	FmtKind string  `json:"fmt,omitempty"`  // fmt: pcm16 | pcm18 (cb_size 0) | ext
	Info    []WAVKV `json:"info,omitempty"` // LIST INFO members
	N       int     `json:"n,omitempty"`    // fact: sample_length
	Payload Payload `json:"payload"`        // data / unknown chunks
}

type WAVKV struct {
	ID    string `json:"id"`
	Value string `json:"value"`
}

type WAVSpec struct {
	Channels   int        `json:"channels"`
	SampleRate int        `json:"sample_rate"`
	Bits       int        `json:"bits"`
	Chunks     []WAVChunk `json:"chunks"`
}

type WAVChunkInfo struct {
	ID   string
	Data []byte // chunk body without padding
	Kids []WAVChunkInfo
}

type WAVInfo struct {
	RiffSize int
	Chunks   []WAVChunkInfo
}

func riffChunk(id string, body []byte) []byte {
	out := append([]byte(id), 0, 0, 0, 0)
	binary.LittleEndian.PutUint32(out[4:], uint32(len(body)))
	out = append(out, body...)
	if len(body)%2 == 1 {
		out = append(out, 0)
	}
	return out
}

func BuildWAV(s WAVSpec) ([]byte, *WAVInfo, error) {
	info := &WAVInfo{}
	body := []byte("WAVE")
	for _, c := range s.Chunks {
		var b []byte
		ci := WAVChunkInfo{ID: c.ID}
		switch c.ID {
		case "fmt ":
			blockAlign := s.Channels * ((s.Bits + 7) / 8)
			tag := uint16(1)
			if c.FmtKind == "ext" {
				tag = 0xfffe
			}
			b = binary.LittleEndian.AppendUint16(b, tag)
			b = binary.LittleEndian.AppendUint16(b, uint16(s.Channels))
			b = binary.LittleEndian.AppendUint32(b, uint32(s.SampleRate))
			b = binary.LittleEndian.AppendUint32(b, uint32(s.SampleRate*blockAlign))
			b = binary.LittleEndian.AppendUint16(b, uint16(blockAlign))
			b = binary.LittleEndian.AppendUint16(b, uint16(s.Bits))
			switch c.FmtKind {
			case "pcm18":
				b = binary.LittleEndian.AppendUint16(b, 0)
			case "ext":
				b = binary.LittleEndian.AppendUint16(b, 22)
				b = binary.LittleEndian.AppendUint16(b, uint16(s.Bits))
				b = binary.LittleEndian.AppendUint32(b, uint32(1<<uint(s.Channels))-1)
				b = append(b, 0x01, 0x00, 0x00, 0x00, 0x00, 0x00, 0x10, 0x00, 0x80, 0x00, 0x00, 0xaa, 0x00, 0x38, 0x9b, 0x71)
			}
		case "fact":
			b = binary.LittleEndian.AppendUint32(b, uint32(c.N))
		case "LIST":
			b = []byte("INFO")
			for _, kv := range c.Info {
				v := append([]byte(kv.Value), 0)
				ci.Kids = append(ci.Kids, WAVChunkInfo{ID: kv.ID, Data: v})
				b = append(b, riffChunk(kv.ID, v)...)
			}
		default:
			b = c.Payload.Bytes()
		}
		ci.Data = b
		info.Chunks = append(info.Chunks, ci)
		body = append(body, riffChunk(c.ID, b)...)
	}
	info.RiffSize = len(body)
	out := riffChunk("RIFF", body)
	return out, info, nil
}
