package containers

import (
	"encoding/hex"
	"fmt"
	"strings"

	"pgregory.net/rapid"
)

// GenPayload draws a payload description.  big allows payloads above 64 KiB
// (kept rare: they dominate the run time).
func GenPayload(rt *rapid.T, label string, big bool) Payload {
	kind := rapid.SampledFrom([]string{"empty", "literal", "literal", "zeros", "text", "text", "random", "random", "mixed", "ramp"}).Draw(rt, label+"_kind")
	switch kind {
	case "empty":
		return Payload{Kind: "empty"}
	case "literal":
		b := rapid.SliceOfN(rapid.Byte(), 1, 24).Draw(rt, label+"_bytes")
		return Payload{Kind: "literal", Hex: hex.EncodeToString(b)}
	}
	sizes := []*rapid.Generator[int]{rapid.IntRange(1, 64), rapid.IntRange(1, 64), rapid.IntRange(65, 2000), rapid.IntRange(2001, 20000),
		rapid.SampledFrom([]int{255, 256, 257, 511, 512, 513, 1023, 1024, 1536, 4095, 4096, 16383, 16384, 16385, 32768})}
	if big {
		sizes = append(sizes, rapid.SampledFrom([]int{65535, 65536, 65537, 70001, 131072, 150000}))
	}
	n := rapid.OneOf(sizes...).Draw(rt, label+"_len")
	return Payload{Kind: kind, Len: n, Seed: rapid.Uint64Range(0, 1<<32).Draw(rt, label+"_seed")}
}

var asciiSeg = rapid.StringMatching(`[a-zA-Z0-9_][a-zA-Z0-9_.\-]{0,11}`)
var uniSegs = []string{"é", "日本語", "файл", "😀", "naïve", "ü-ber", "ā b", "ελ"}

// GenName draws a member name: class is ascii | unicode | long | longunicode.
func GenName(rt *rapid.T, label string, class string) string {
	seg := func(i int) string {
		s := asciiSeg.Draw(rt, fmt.Sprintf("%s_seg%d", label, i))
		if strings.HasPrefix(class, "unicode") || class == "longunicode" {
			if rapid.Bool().Draw(rt, fmt.Sprintf("%s_u%d", label, i)) {
				s += rapid.SampledFrom(uniSegs).Draw(rt, fmt.Sprintf("%s_us%d", label, i))
			}
		}
		return s
	}
	switch class {
	case "long", "longunicode":
		target := rapid.IntRange(101, 250).Draw(rt, label+"_target")
		var parts []string
		l := 0
		for i := 0; l < target; i++ {
			s := seg(i)
			if class == "longunicode" && i == 0 {
				s += "é"
			}
			// stretch some segments so that splitting is not always possible at the same place
			if rapid.IntRange(0, 3).Draw(rt, fmt.Sprintf("%s_st%d", label, i)) == 0 {
				s += strings.Repeat("x", rapid.IntRange(1, 60).Draw(rt, fmt.Sprintf("%s_stn%d", label, i)))
			}
			parts = append(parts, s)
			l += len(s) + 1
		}
		return strings.Join(parts, "/")
	}
	n := rapid.IntRange(1, 3).Draw(rt, label+"_depth")
	var parts []string
	for i := 0; i < n; i++ {
		parts = append(parts, seg(i))
	}
	if class == "unicode" {
		parts[len(parts)-1] += rapid.SampledFrom(uniSegs).Draw(rt, label+"_ulast")
	}
	return strings.Join(parts, "/")
}

func nameClass(rt *rapid.T, label string) string {
	return rapid.SampledFrom([]string{"ascii", "ascii", "ascii", "unicode", "long", "longunicode"}).Draw(rt, label)
}

var asciiText = rapid.StringMatching(`[ -~]{1,40}`)

// ---------------------------------------------------------------------------

func GenGzip(rt *rapid.T, pre string) GzipSpec {
	n := rapid.SampledFrom([]int{1, 1, 1, 2, 3}).Draw(rt, pre+"members")
	var s GzipSpec
	for i := 0; i < n; i++ {
		l := fmt.Sprintf("m%d", i)
		m := GzipMember{
			Level:   rapid.SampledFrom([]int{-2, -1, 0, 1, 2, 5, 6, 9}).Draw(rt, pre+l+"_level"),
			Payload: GenPayload(rt, pre+l+"_p", rapid.IntRange(0, 24).Draw(rt, pre+l+"_big") == 0),
		}
		if rapid.Bool().Draw(rt, pre+l+"_hasmtime") {
			m.MTime = rapid.Uint32Range(1, 0xfffffffe).Draw(rt, pre+l+"_mtime")
		}
		// optional header fields (about a third of the members)
		if rapid.IntRange(0, 7).Draw(rt, pre+l+"_opt") == 4 {
			which := rapid.IntRange(1, 7).Draw(rt, pre+l+"_which")
			if which&1 != 0 {
				m.Name = GenName(rt, pre+l+"_name", rapid.SampledFrom([]string{"ascii", "long"}).Draw(rt, pre+l+"_nc"))
			}
			if which&2 != 0 {
				m.Comment = asciiText.Draw(rt, pre+l+"_comment")
			}
			if which&4 != 0 {
				// a well-formed subfield: SI1 SI2 LEN data
				d := rapid.SliceOfN(rapid.Byte(), 0, 12).Draw(rt, pre+l+"_extra")
				e := append([]byte{'v', 'f', byte(len(d)), 0}, d...)
				m.Extra = hex.EncodeToString(e)
			}
		}
		s.Members = append(s.Members, m)
	}
	return s
}

func GenZip(rt *rapid.T, pre string) ZipSpec {
	n := rapid.SampledFrom([]int{0, 1, 1, 2, 2, 3, 4, 5}).Draw(rt, pre+"members")
	var s ZipSpec
	if rapid.IntRange(0, 3).Draw(rt, pre+"hascomment") == 0 {
		s.Comment = asciiText.Draw(rt, pre+"comment")
	}
	seen := map[string]bool{}
	for i := 0; i < n; i++ {
		l := fmt.Sprintf("m%d", i)
		m := ZipMember{
			Name:    GenName(rt, pre+l+"_name", nameClass(rt, pre+l+"_nc")),
			Method:  rapid.SampledFrom([]uint16{0, 8, 8}).Draw(rt, pre+l+"_method"),
			Mode:    rapid.SampledFrom([]string{"stream", "stream", "raw", "raw", "rawdd"}).Draw(rt, pre+l+"_mode"),
			Level:   rapid.SampledFrom([]int{-2, -1, 0, 1, 6, 9}).Draw(rt, pre+l+"_level"),
			Payload: GenPayload(rt, pre+l+"_p", rapid.IntRange(0, 30).Draw(rt, pre+l+"_big") == 0),
		}
		if seen[m.Name] {
			m.Name += fmt.Sprintf("_%d", i)
		}
		seen[m.Name] = true
		// stored members whose size is only in the data descriptor run into a
		// recorded fq defect: keep them, but rarer
		if m.Method == 0 && m.Mode != "raw" && rapid.IntRange(0, 3).Draw(rt, pre+l+"_keepstream") != 0 {
			m.Mode = "raw"
		}
		if rapid.IntRange(0, 7).Draw(rt, pre+l+"_dir") == 0 {
			m.Name += "/"
			m.Payload = Payload{Kind: "empty"}
		}
		if rapid.IntRange(0, 3).Draw(rt, pre+l+"_hascomment") == 0 {
			m.Comment = asciiText.Draw(rt, pre+l+"_comment")
			if rapid.IntRange(0, 3).Draw(rt, pre+l+"_ucomment") == 0 {
				m.Comment += rapid.SampledFrom(uniSegs).Draw(rt, pre+l+"_uc")
			}
		}
		if rapid.Bool().Draw(rt, pre+l+"_hasmod") {
			// DOS dates cover 1980..2107; stay well inside and on even seconds or not
			m.Modified = rapid.Int64Range(315532800+86400, 4102444800).Draw(rt, pre+l+"_mod")
		}
		if rapid.IntRange(0, 4).Draw(rt, pre+l+"_hasextra") == 0 {
			d := rapid.SliceOfN(rapid.Byte(), 0, 10).Draw(rt, pre+l+"_extra")
			e := []byte{0xfe, 0xca, byte(len(d)), 0}
			m.Extra = hex.EncodeToString(append(e, d...))
		}
		s.Members = append(s.Members, m)
	}
	return s
}

func GenTar(rt *rapid.T, pre string) TarSpec {
	s := TarSpec{Format: rapid.SampledFrom([]string{"ustar", "pax", "gnu"}).Draw(rt, pre+"format")}
	n := rapid.SampledFrom([]int{1, 1, 2, 2, 3, 4, 5}).Draw(rt, pre+"members")
	for i := 0; i < n; i++ {
		l := fmt.Sprintf("m%d", i)
		nc := nameClass(rt, pre+l+"_nc")
		if s.Format == "ustar" && (nc == "unicode" || nc == "longunicode") {
			nc = "ascii" // USTAR cannot store non-ASCII names (the writer refuses)
		}
		m := TarMember{
			Name:  GenName(rt, pre+l+"_name", nc),
			Type:  rapid.SampledFrom([]string{"0", "0", "0", "0", "5", "2", "1", "3"}).Draw(rt, pre+l+"_type"),
			Mode:  rapid.SampledFrom([]int64{0o644, 0o755, 0o600, 0o777, 0, 0o4755, 0o1777}).Draw(rt, pre+l+"_mode"),
			UID:   rapid.OneOf(rapid.IntRange(0, 2000), rapid.IntRange(0, 2097151)).Draw(rt, pre+l+"_uid"),
			GID:   rapid.OneOf(rapid.IntRange(0, 2000), rapid.IntRange(0, 2097151)).Draw(rt, pre+l+"_gid"),
			MTime: rapid.OneOf(rapid.Int64Range(0, 2000000000), rapid.Int64Range(0, 8589934591)).Draw(rt, pre+l+"_mtime"),
		}
		if rapid.Bool().Draw(rt, pre+l+"_hasnames") {
			m.Uname = rapid.StringMatching(`[a-z][a-z0-9]{0,15}`).Draw(rt, pre+l+"_uname")
			m.Gname = rapid.StringMatching(`[a-z][a-z0-9]{0,15}`).Draw(rt, pre+l+"_gname")
		}
		switch m.Type {
		case "0":
			m.Payload = GenPayload(rt, pre+l+"_p", rapid.IntRange(0, 30).Draw(rt, pre+l+"_big") == 0)
		case "5":
			m.Name += "/"
		case "2", "1":
			lc := "ascii"
			if s.Format != "ustar" && rapid.IntRange(0, 3).Draw(rt, pre+l+"_longlink") == 0 {
				lc = "long"
			}
			m.Linkname = GenName(rt, pre+l+"_link", lc)
		case "3":
			m.DevMajor = rapid.Int64Range(0, 4095).Draw(rt, pre+l+"_major")
			m.DevMinor = rapid.Int64Range(0, 2097151).Draw(rt, pre+l+"_minor")
		}
		s.Members = append(s.Members, m)
	}
	return s
}

var pngKeyword = rapid.StringMatching(`[A-Za-z][A-Za-z0-9 ]{0,20}[A-Za-z0-9]`)

func GenPNG(rt *rapid.T, pre string) PNGSpec {
	s := PNGSpec{
		Writer:  rapid.SampledFrom([]string{"go", "hand"}).Draw(rt, pre+"writer"),
		W:       rapid.OneOf(rapid.IntRange(1, 8), rapid.IntRange(1, 64)).Draw(rt, pre+"w"),
		H:       rapid.OneOf(rapid.IntRange(1, 8), rapid.IntRange(1, 64)).Draw(rt, pre+"h"),
		PixSeed: rapid.Uint64Range(0, 1<<32).Draw(rt, pre+"pix_seed"),
		PixKind: rapid.SampledFrom([]string{"random", "flat", "ramp"}).Draw(rt, pre+"pix_kind"),
	}
	s.ColorType = rapid.SampledFrom([]int{0, 2, 3, 6}).Draw(rt, pre+"color_type")
	if s.Writer == "hand" {
		s.ColorType = rapid.SampledFrom([]int{0, 2, 3, 4, 6}).Draw(rt, pre+"color_type_hand")
		switch s.ColorType {
		case 0:
			s.BitDepth = rapid.SampledFrom([]int{1, 2, 4, 8, 16}).Draw(rt, pre+"depth")
		case 3:
			s.BitDepth = rapid.SampledFrom([]int{1, 2, 4, 8}).Draw(rt, pre+"depth")
		default:
			s.BitDepth = rapid.SampledFrom([]int{8, 16}).Draw(rt, pre+"depth")
		}
		s.Level = rapid.SampledFrom([]int{-1, 0, 1, 6, 9}).Draw(rt, pre+"level")
		k := rapid.IntRange(0, 3).Draw(rt, pre+"nsplit")
		for i := 0; i < k; i++ {
			s.IDATSplit = append(s.IDATSplit, rapid.IntRange(1, 40).Draw(rt, pre+fmt.Sprintf("split%d", i)))
		}
	} else {
		s.BitDepth = rapid.SampledFrom([]int{8, 16}).Draw(rt, pre+"depth")
		s.Level = rapid.SampledFrom([]int{0, -1, -2, -3}).Draw(rt, pre+"level")
	}
	if s.ColorType == 3 {
		max := 256
		if s.Writer == "hand" {
			max = 1 << uint(s.BitDepth)
		}
		s.NPalette = rapid.OneOf(rapid.IntRange(1, min(max, 5)), rapid.IntRange(1, max)).Draw(rt, pre+"npalette")
		if rapid.Bool().Draw(rt, pre+"hastrns") {
			s.NTrns = rapid.IntRange(1, s.NPalette).Draw(rt, pre+"ntrns")
		}
	}
	k := rapid.SampledFrom([]int{0, 0, 1, 1, 2, 3}).Draw(rt, pre+"nchunks")
	for i := 0; i < k; i++ {
		l := fmt.Sprintf("c%d", i)
		c := PNGChunkSpec{
			Type:  rapid.SampledFrom([]string{"tEXt", "zTXt", "zTXt", "gAMA", "pHYs", "prVt"}).Draw(rt, pre+l+"_type"),
			Where: rapid.SampledFrom([]string{"before_idat", "after_idat"}).Draw(rt, pre+l+"_where"),
		}
		switch c.Type {
		case "tEXt", "zTXt":
			c.Keyword = pngKeyword.Draw(rt, pre+l+"_kw")
			// Latin-1 is the stored charset; stay in ASCII (fq reads UTF-8)
			switch rapid.IntRange(0, 3).Draw(rt, pre+l+"_textkind") {
			case 0:
				c.Text = ""
			case 1:
				c.Text = strings.Repeat(asciiText.Draw(rt, pre+l+"_rep"), rapid.IntRange(1, 200).Draw(rt, pre+l+"_repn"))
			default:
				c.Text = asciiText.Draw(rt, pre+l+"_text")
			}
			c.Level = rapid.SampledFrom([]int{-1, 0, 1, 9}).Draw(rt, pre+l+"_level")
		case "gAMA":
			c.Data = hex.EncodeToString([]byte{0, 0, byte(rapid.IntRange(0, 255).Draw(rt, pre+l+"_g1")), byte(rapid.IntRange(0, 255).Draw(rt, pre+l+"_g2"))})
		case "pHYs":
			c.Data = hex.EncodeToString(append(rapid.SliceOfN(rapid.Byte(), 8, 8).Draw(rt, pre+l+"_phys"), byte(rapid.IntRange(0, 1).Draw(rt, pre+l+"_unit"))))
		default:
			c.Data = hex.EncodeToString(rapid.SliceOfN(rapid.Byte(), 0, 20).Draw(rt, pre+l+"_data"))
		}
		s.Chunks = append(s.Chunks, c)
	}
	return s
}

func GenGIF(rt *rapid.T, pre string) GIFSpec {
	s := GIFSpec{
		W:         rapid.IntRange(1, 40).Draw(rt, pre+"w"),
		H:         rapid.IntRange(1, 40).Draw(rt, pre+"h"),
		PalSeed:   rapid.Uint64Range(0, 1<<32).Draw(rt, pre+"pal_seed"),
		LoopCount: rapid.SampledFrom([]int{0, 0, -1, 1, 5, 65535}).Draw(rt, pre+"loop"),
	}
	if rapid.IntRange(0, 29).Draw(rt, pre+"noglobal") != 15 {
		s.NGlobal = rapid.OneOf(rapid.IntRange(1, 8), rapid.IntRange(1, 256)).Draw(rt, pre+"nglobal")
		s.Background = rapid.IntRange(0, s.NGlobal-1).Draw(rt, pre+"background")
	}
	n := rapid.SampledFrom([]int{1, 1, 2, 3}).Draw(rt, pre+"frames")
	for i := 0; i < n; i++ {
		l := fmt.Sprintf("f%d", i)
		f := GIFFrame{PixSeed: rapid.Uint64Range(0, 1<<32).Draw(rt, pre+l+"_seed"), PixKind: rapid.SampledFrom([]string{"random", "flat", "ramp"}).Draw(rt, pre+l+"_kind")}
		f.X = rapid.IntRange(0, s.W-1).Draw(rt, pre+l+"_x")
		f.Y = rapid.IntRange(0, s.H-1).Draw(rt, pre+l+"_y")
		if rapid.Bool().Draw(rt, pre+l+"_full") {
			f.X, f.Y = 0, 0
		}
		f.W = rapid.IntRange(1, s.W-f.X).Draw(rt, pre+l+"_w")
		f.H = rapid.IntRange(1, s.H-f.Y).Draw(rt, pre+l+"_h")
		if s.NGlobal == 0 || rapid.IntRange(0, 15).Draw(rt, pre+l+"_haslocal") == 8 {
			f.Local = rapid.OneOf(rapid.IntRange(1, 8), rapid.IntRange(1, 256)).Draw(rt, pre+l+"_nlocal")
		}
		if rapid.Bool().Draw(rt, pre+l+"_hasgce") {
			f.Delay = rapid.IntRange(0, 1000).Draw(rt, pre+l+"_delay")
			f.Disposal = rapid.IntRange(0, 3).Draw(rt, pre+l+"_disposal")
		}
		s.Frames = append(s.Frames, f)
	}
	return s
}

var infoIDs = []string{"INAM", "IART", "ISFT", "ICMT", "ICRD", "IGNR"}

func GenWAV(rt *rapid.T, pre string) WAVSpec {
	s := WAVSpec{
		Channels:   rapid.IntRange(1, 6).Draw(rt, pre+"channels"),
		SampleRate: rapid.SampledFrom([]int{8000, 11025, 22050, 44100, 48000, 96000, 192000}).Draw(rt, pre+"rate"),
		Bits:       rapid.SampledFrom([]int{8, 16, 24, 32}).Draw(rt, pre+"bits"),
	}
	s.Chunks = append(s.Chunks, WAVChunk{ID: "fmt ", FmtKind: rapid.SampledFrom([]string{"pcm16", "pcm16", "pcm18", "ext"}).Draw(rt, pre+"fmt")})
	extra := func(l string) {
		switch rapid.IntRange(0, 5).Draw(rt, pre+l) {
		case 0:
			s.Chunks = append(s.Chunks, WAVChunk{ID: "fact", N: rapid.IntRange(0, 1<<30).Draw(rt, pre+l+"_n"), Payload: Payload{Kind: "empty"}})
		case 1:
			k := rapid.IntRange(0, 3).Draw(rt, pre+l+"_ninfo")
			c := WAVChunk{ID: "LIST"}
			for i := 0; i < k; i++ {
				c.Info = append(c.Info, WAVKV{ID: rapid.SampledFrom(infoIDs).Draw(rt, pre+fmt.Sprintf("%s_id%d", l, i)), Value: asciiText.Draw(rt, pre+fmt.Sprintf("%s_v%d", l, i))})
			}
			s.Chunks = append(s.Chunks, c)
		case 2:
			s.Chunks = append(s.Chunks, WAVChunk{ID: rapid.SampledFrom([]string{"junk", "JUNK", "cue ", "xyzw"}).Draw(rt, pre+l+"_id"), Payload: GenPayload(rt, pre+l+"_p", false)})
		}
	}
	extra("pre")
	s.Chunks = append(s.Chunks, WAVChunk{ID: "data", Payload: GenPayload(rt, pre+"data", rapid.IntRange(0, 30).Draw(rt, pre+"big") == 0)})
	extra("post")
	extra("post2")
	return s
}
