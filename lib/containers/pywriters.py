# Second writer family for C15 (thorough tier): Python's gzip / zipfile /
# tarfile / wave / zlib modules.  Reads one JSON request on stdin:
#   {"files": [{"format": ..., "spec": {...}, "payloads": [hex, ...]}]}
# and writes {"files": [{"hex": ..., "manifest": {...}} | {"error": "..."}]}.
# Deterministic: every time stamp comes from the spec.
import sys, json, io, gzip, zipfile, tarfile, wave, zlib, bz2, binascii


def unhex(s):
    return binascii.unhexlify(s)


class Unseekable:
    """A write-only stream: zipfile then emits data descriptors."""

    def __init__(self):
        self.buf = io.BytesIO()

    def write(self, b):
        return self.buf.write(b)

    def flush(self):
        pass


def w_gzip(spec, payloads):
    buf = io.BytesIO()
    members = []
    for m, p in zip(spec.get("members") or [], payloads or []):
        data = unhex(p)
        start = buf.tell()
        level = m["level"]
        with gzip.GzipFile(filename=m.get("name", ""), mode="wb", compresslevel=level, fileobj=buf, mtime=m.get("mtime", 0)) as g:
            g.write(data)
        hl = 10 + (len(m["name"]) + 1 if m.get("name") else 0)
        xfl = 2 if level == 9 else (4 if level == 1 else 0)
        members.append({"start": start, "deflate_start": start + hl, "deflate_end": buf.tell() - 8, "end": buf.tell(), "xfl": xfl})
    return buf.getvalue(), {"members": members}


def w_zip(spec, payloads):
    stream = spec.get("unseekable", False)
    out = Unseekable() if stream else io.BytesIO()
    zf = zipfile.ZipFile(out, "w")
    for m, p in zip(spec.get("members") or [], payloads or []):
        data = unhex(p)
        zi = zipfile.ZipInfo(filename=m["name"], date_time=tuple(m["date_time"]))
        zi.compress_type = zipfile.ZIP_DEFLATED if m["method"] == 8 else zipfile.ZIP_STORED
        zi.comment = m.get("comment", "").encode("utf-8")
        zi.extra = unhex(m.get("extra", ""))
        zi.external_attr = 0o644 << 16
        if m["name"].endswith("/"):
            data = b""
        zf.writestr(zi, data, compresslevel=m.get("level", 6))
    zf.comment = spec.get("comment", "").encode("utf-8")
    zf.close()
    raw = out.buf.getvalue() if stream else out.getvalue()
    members = []
    for zi in zf.infolist():
        flags = zi.flag_bits
        try:
            zi.filename.encode("ascii")
        except UnicodeEncodeError:
            flags |= 0x800  # zipfile adds the UTF-8 flag while writing, not in flag_bits
        members.append({
            "name": zi.filename, "flags": flags, "method": zi.compress_type, "crc": zi.CRC,
            "csize": zi.compress_size, "size": zi.file_size, "offset": zi.header_offset,
            "extra": binascii.hexlify(zi.extra).decode(), "comment": zi.comment.decode("utf-8"),
            "date_time": list(zi.date_time),
        })
    return raw, {"members": members, "start_dir": zf.start_dir}


TAR_TYPES = {"0": tarfile.REGTYPE, "5": tarfile.DIRTYPE, "2": tarfile.SYMTYPE, "1": tarfile.LNKTYPE, "3": tarfile.CHRTYPE}
TAR_FORMATS = {"ustar": tarfile.USTAR_FORMAT, "gnu": tarfile.GNU_FORMAT, "pax": tarfile.PAX_FORMAT}


def w_tar(spec, payloads):
    buf = io.BytesIO()
    tf = tarfile.open(fileobj=buf, mode="w", format=TAR_FORMATS[spec["format"]])
    for m, p in zip(spec.get("members") or [], payloads or []):
        data = unhex(p) if m["type"] == "0" else b""
        ti = tarfile.TarInfo(m["name"])
        ti.type = TAR_TYPES[m["type"]]
        ti.size = len(data)
        ti.mode = m["mode"]
        ti.uid = m["uid"]
        ti.gid = m["gid"]
        ti.uname = m.get("uname", "")
        ti.gname = m.get("gname", "")
        ti.mtime = m["mtime"]
        ti.linkname = m.get("linkname", "")
        if m["type"] == "3":
            ti.devmajor = m.get("devmajor", 0)
            ti.devminor = m.get("devminor", 0)
        tf.addfile(ti, io.BytesIO(data))
    tf.close()
    return buf.getvalue(), {}


def w_wav(spec, payloads):
    buf = io.BytesIO()
    w = wave.open(buf, "wb")
    w.setnchannels(spec["channels"])
    w.setsampwidth(spec["bits"] // 8)
    w.setframerate(spec["sample_rate"])
    w.writeframes(unhex(payloads[0]))
    w.close()
    return buf.getvalue(), {}


def w_zlib(spec, payloads):
    # returns the zlib streams of the payloads, concatenated with a length table
    outs = [zlib.compress(unhex(p), lv) for p, lv in zip(payloads, spec["levels"])]
    return b"".join(outs), {"lengths": [len(o) for o in outs]}


def w_bzip2(spec, payloads):
    return bz2.compress(unhex(payloads[0]), spec["level"]), {}


WRITERS = {"bzip2": w_bzip2, "gzip": w_gzip, "zip": w_zip, "tar": w_tar, "wav": w_wav, "zlib": w_zlib}


def main():
    req = json.load(sys.stdin)
    res = []
    for f in req["files"]:
        try:
            raw, man = WRITERS[f["format"]](f["spec"], f["payloads"])
            res.append({"hex": binascii.hexlify(raw).decode(), "manifest": man})
        except Exception as e:  # the writer refuses the spec (e.g. a name USTAR cannot hold)
            res.append({"error": "%s: %s" % (type(e).__name__, e)})
    json.dump({"files": res}, sys.stdout)


main()
