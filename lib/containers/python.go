package containers

import (
	"bytes"
	_ "embed"
	"encoding/hex"
	"encoding/json"
	"fmt"
	"hash/crc32"
	"os/exec"
	"strings"
	"time"
)

// Second writer family (thorough tier): Python's gzip, zipfile, tarfile, wave
// and zlib modules, driven by pywriters.py.

//go:embed pywriters.py
var pyScript string

type PyFile struct {
	Format   string   `json:"format"`
	Spec     any      `json:"spec"`
	Payloads []string `json:"payloads"`
}

type PyResult struct {
	Hex      string          `json:"hex"`
	Manifest json.RawMessage `json:"manifest"`
	Error    string          `json:"error"`
}

func (r PyResult) Bytes() []byte {
	b, _ := hex.DecodeString(r.Hex)
	return b
}

// PythonPath returns the interpreter, or "" when there is none.
func PythonPath() string {
	p, err := exec.LookPath("python3")
	if err != nil {
		return ""
	}
	return p
}

// RunPython builds all files in one interpreter run.
func RunPython(files []PyFile) ([]PyResult, error) {
	req, err := json.Marshal(map[string]any{"files": files})
	if err != nil {
		return nil, err
	}
	cmd := exec.Command(PythonPath(), "-c", pyScript)
	cmd.Stdin = bytes.NewReader(req)
	var out, errb bytes.Buffer
	cmd.Stdout, cmd.Stderr = &out, &errb
	if err := cmd.Run(); err != nil {
		return nil, fmt.Errorf("python3: %v: %s", err, errb.String())
	}
	var res struct {
		Files []PyResult `json:"files"`
	}
	if err := json.Unmarshal(out.Bytes(), &res); err != nil {
		return nil, err
	}
	if len(res.Files) != len(files) {
		return nil, fmt.Errorf("python3 returned %d files for %d", len(res.Files), len(files))
	}
	return res.Files, nil
}

func hexOf(b []byte) string { return hex.EncodeToString(b) }

// --- gzip

func PyGzipFile(s GzipSpec) PyFile {
	f := PyFile{Format: "gzip", Spec: s}
	for _, m := range s.Members {
		f.Payloads = append(f.Payloads, hexOf(m.Payload.Bytes()))
	}
	return f
}

func PyGzipInfos(s GzipSpec, r PyResult) ([]GzipMemberInfo, error) {
	var man struct {
		Members []struct {
			Start        int `json:"start"`
			DeflateStart int `json:"deflate_start"`
			DeflateEnd   int `json:"deflate_end"`
			End          int `json:"end"`
			XFL          int `json:"xfl"`
		} `json:"members"`
	}
	if err := json.Unmarshal(r.Manifest, &man); err != nil {
		return nil, err
	}
	var out []GzipMemberInfo
	for i, m := range s.Members {
		d := m.Payload.Bytes()
		mm := man.Members[i]
		out = append(out, GzipMemberInfo{Data: d, CRC32: crc32.ChecksumIEEE(d), ISize: uint32(len(d)), XFL: mm.XFL,
			Start: mm.Start, DeflateStart: mm.DeflateStart, DeflateEnd: mm.DeflateEnd, End: mm.End})
	}
	return out, nil
}

// --- zip

type PyZipMember struct {
	Name     string  `json:"name"`
	Method   uint16  `json:"method"`
	Level    int     `json:"level"`
	Comment  string  `json:"comment,omitempty"`
	Extra    string  `json:"extra,omitempty"`
	DateTime [6]int  `json:"date_time"`
	Payload  Payload `json:"payload"`
}

type PyZipSpec struct {
	Unseekable bool          `json:"unseekable"`
	Comment    string        `json:"comment,omitempty"`
	Members    []PyZipMember `json:"members"`
}

func PyZipFile(s PyZipSpec) PyFile {
	f := PyFile{Format: "zip", Spec: s}
	for _, m := range s.Members {
		f.Payloads = append(f.Payloads, hexOf(m.Payload.Bytes()))
	}
	return f
}

// PyZipInfos converts the manifest into the structures the zip oracle uses.
func PyZipInfos(s PyZipSpec, r PyResult) (ZipSpec, []ZipMemberInfo, error) {
	var man struct {
		Members []struct {
			Name     string `json:"name"`
			Flags    uint16 `json:"flags"`
			Method   uint16 `json:"method"`
			CRC      uint32 `json:"crc"`
			CSize    uint64 `json:"csize"`
			Size     uint64 `json:"size"`
			Offset   int    `json:"offset"`
			Extra    string `json:"extra"`
			Comment  string `json:"comment"`
			DateTime [6]int `json:"date_time"`
		} `json:"members"`
		StartDir int `json:"start_dir"`
	}
	if err := json.Unmarshal(r.Manifest, &man); err != nil {
		return ZipSpec{}, nil, err
	}
	mode := "py-seekable"
	if s.Unseekable {
		mode = "py-stream"
	}
	zs := ZipSpec{Comment: s.Comment}
	var out []ZipMemberInfo
	for i, m := range s.Members {
		mm := man.Members[i]
		zs.Members = append(zs.Members, ZipMember{Name: m.Name, Method: m.Method, Mode: mode, Comment: m.Comment, Extra: m.Extra, Level: m.Level, Payload: m.Payload})
		d := m.Payload.Bytes()
		isDir := strings.HasSuffix(m.Name, "/")
		if isDir {
			d = nil
		}
		extra, _ := hex.DecodeString(mm.Extra)
		dt := mm.DateTime
		t := time.Date(dt[0], time.Month(dt[1]), dt[2], dt[3], dt[4], dt[5], 0, time.UTC)
		in := ZipMemberInfo{
			Name: mm.Name, IsDir: isDir, Data: d, Method: mm.Method, Flags: mm.Flags, CRC32: mm.CRC, CompressedSize: mm.CSize, Size: mm.Size,
			Comment: mm.Comment, Extra: extra, HasModified: true, Modified: t.Unix(),
			ModDate:        uint16((dt[0]-1980)<<9 | dt[1]<<5 | dt[2]),
			ModTime:        uint16(dt[3]<<11 | dt[4]<<5 | dt[5]/2),
			Offset:         mm.Offset,
			DataStart:      mm.Offset + 30 + len(mm.Name) + len(extra),
			DataDescriptor: mm.Flags&0x8 != 0, Streamed: mm.Flags&0x8 != 0,
		}
		in.End = man.StartDir
		if i+1 < len(man.Members) {
			in.End = man.Members[i+1].Offset
		}
		out = append(out, in)
	}
	return zs, out, nil
}

// --- tar, wav

func PyTarFile(s TarSpec) PyFile {
	f := PyFile{Format: "tar", Spec: s}
	for _, m := range s.Members {
		f.Payloads = append(f.Payloads, hexOf(m.Payload.Bytes()))
	}
	return f
}

func PyTarInfos(s TarSpec) []TarMemberInfo {
	var out []TarMemberInfo
	for _, m := range s.Members {
		var d []byte
		if m.Type == "0" {
			d = m.Payload.Bytes()
		}
		out = append(out, TarMemberInfo{TarMember: m, Data: d})
	}
	return out
}

// PyWAVFile: the spec must be {fmt pcm16, data}; the expected chunk bodies are
// those of the hand-written writer.
func PyWAVFile(s WAVSpec) PyFile {
	return PyFile{Format: "wav", Spec: s, Payloads: []string{hexOf(s.Chunks[1].Payload.Bytes())}}
}

// --- zlib (for PNG IDAT / zTXt)

type pyZlibSpec struct {
	Levels []int `json:"levels"`
}

// PyPNG builds the hand-written PNG of the spec with every zlib stream
// compressed by Python's zlib module.
func PyPNG(s PNGSpec) ([]byte, *PNGInfo, error) {
	var blobs [][]byte
	var levels []int
	// pass 1: learn what has to be compressed
	_, _, err := BuildPNGZ(s, func(d []byte, level int) ([]byte, error) {
		blobs = append(blobs, append([]byte{}, d...))
		levels = append(levels, level)
		return zlibBytes(d, level)
	})
	if err != nil {
		return nil, nil, err
	}
	f := PyFile{Format: "zlib", Spec: pyZlibSpec{Levels: levels}}
	for _, b := range blobs {
		f.Payloads = append(f.Payloads, hexOf(b))
	}
	res, err := RunPython([]PyFile{f})
	if err != nil {
		return nil, nil, err
	}
	if res[0].Error != "" {
		return nil, nil, fmt.Errorf("python zlib: %s", res[0].Error)
	}
	var man struct {
		Lengths []int `json:"lengths"`
	}
	if err := json.Unmarshal(res[0].Manifest, &man); err != nil {
		return nil, nil, err
	}
	all := res[0].Bytes()
	var streams [][]byte
	for _, l := range man.Lengths {
		streams = append(streams, all[:l])
		all = all[l:]
	}
	i := 0
	return BuildPNGZ(s, func(d []byte, level int) ([]byte, error) {
		if i >= len(streams) {
			return nil, fmt.Errorf("python zlib: stream %d missing", i)
		}
		i++
		return streams[i-1], nil
	})
}

// --- bzip2 (single block: fq's decoder handles one block per stream)

type Bzip2Spec struct {
	Level   int     `json:"level"` // 1..9 (x100k block size)
	Payload Payload `json:"payload"`
}

func PyBzip2File(s Bzip2Spec) PyFile {
	return PyFile{Format: "bzip2", Spec: s, Payloads: []string{hexOf(s.Payload.Bytes())}}
}

// Bzip2CRC is the bzip2 block checksum: CRC-32 with polynomial 0x04c11db7,
// most significant bit first, initial value and final xor 0xffffffff.
func Bzip2CRC(b []byte) uint32 {
	crc := uint32(0xffffffff)
	for _, c := range b {
		crc ^= uint32(c) << 24
		for i := 0; i < 8; i++ {
			if crc&0x80000000 != 0 {
				crc = crc<<1 ^ 0x04c11db7
			} else {
				crc <<= 1
			}
		}
	}
	return ^crc
}
