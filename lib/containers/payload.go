// Package containers builds archive, compression and image container files
// from small serialisable specs with writers that are independent of fq (Go's
// standard library and a few hand-written ones), together with a manifest of
// what was stored and where.  The rapid generators of the specs live in gen.go.
package containers

import (
	"encoding/hex"
)

// Payload describes a byte string compactly (the case JSON stays small even
// for payloads above 64 KiB).
type Payload struct {
	Kind string `json:"kind"` // empty | literal | zeros | text | random | mixed | ramp
	Len  int    `json:"len,omitempty"`
	Seed uint64 `json:"seed,omitempty"`
	Hex  string `json:"hex,omitempty"` // literal only
}

type prng struct{ s uint64 }

func (p *prng) next() uint64 {
	p.s += 0x9e3779b97f4a7c15
	x := p.s
	x = (x ^ (x >> 30)) * 0xbf58476d1ce4e5b9
	x = (x ^ (x >> 27)) * 0x94d049bb133111eb
	return x ^ (x >> 31)
}

// RandBytes expands a seed into n pseudo random (incompressible) bytes.
func RandBytes(seed uint64, n int) []byte {
	p := prng{s: seed}
	out := make([]byte, n)
	for i := 0; i < n; i += 8 {
		v := p.next()
		for j := 0; j < 8 && i+j < n; j++ {
			out[i+j] = byte(v >> (8 * uint(j)))
		}
	}
	return out
}

var words = []string{"the ", "quick ", "brown ", "fox ", "jumps ", "over ", "lazy ", "dog\n", "0123456789 ", "fq ", "lorem ", "ipsum "}

// Bytes materialises the payload.
func (p Payload) Bytes() []byte {
	switch p.Kind {
	case "literal":
		b, _ := hex.DecodeString(p.Hex)
		return b
	case "zeros":
		return make([]byte, p.Len)
	case "text":
		// highly compressible, but not a single run
		out := make([]byte, 0, p.Len+16)
		r := prng{s: p.Seed}
		for len(out) < p.Len {
			out = append(out, words[r.next()%uint64(len(words))]...)
		}
		return out[:p.Len]
	case "random":
		return RandBytes(p.Seed, p.Len)
	case "ramp":
		out := make([]byte, p.Len)
		for i := range out {
			out[i] = byte(i*7 + int(p.Seed))
		}
		return out
	case "mixed":
		// alternating incompressible pieces and runs: forces a mix of stored,
		// fixed and dynamic deflate blocks at most levels
		out := make([]byte, 0, p.Len+1024)
		r := prng{s: p.Seed}
		for len(out) < p.Len {
			n := int(r.next()%3000) + 1
			switch r.next() % 3 {
			case 0:
				out = append(out, RandBytes(r.next(), n)...)
			case 1:
				b := byte(r.next())
				for i := 0; i < n; i++ {
					out = append(out, b)
				}
			default:
				for len(out) < p.Len && n > 0 {
					w := words[r.next()%uint64(len(words))]
					out = append(out, w...)
					n -= len(w)
				}
			}
		}
		return out[:p.Len]
	}
	return nil
}

// Class names the payload class for label distributions.
func (p Payload) Class() string {
	n := len(p.Bytes())
	switch {
	case n == 0:
		return "empty"
	case n > 65535:
		return p.kindClass() + ">64KiB"
	}
	return p.kindClass()
}

func (p Payload) kindClass() string {
	switch p.Kind {
	case "random":
		return "incompressible"
	case "zeros", "text", "ramp":
		return "compressible"
	case "mixed":
		return "mixed"
	}
	return "literal"
}

// MultiBlock approximates "needs at least two deflate blocks": Go's deflate
// ends a block after 16384 tokens and stored blocks hold at most 65535 bytes.
func (p Payload) MultiBlock() bool {
	n := len(p.Bytes())
	if n > 65535 {
		return true
	}
	return n > 16384 && (p.Kind == "random" || p.Kind == "mixed")
}
