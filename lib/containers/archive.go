package containers

import (
	"archive/tar"
	"archive/zip"
	"bytes"
	"compress/flate"
	"compress/gzip"
	"encoding/hex"
	"fmt"
	"hash/crc32"
	"io"
	"strings"
	"time"
)

// ---------------------------------------------------------------------------
// gzip (compress/gzip)

type GzipMember struct {
	Name    string  `json:"name,omitempty"`
	Comment string  `json:"comment,omitempty"`
	Extra   string  `json:"extra,omitempty"` // hex
	MTime   uint32  `json:"mtime,omitempty"`
	Level   int     `json:"level"` // -2 huffman only, -1 default, 0..9
	Payload Payload `json:"payload"`
}

type GzipSpec struct {
	Members []GzipMember `json:"members"`
}

// GzipMemberInfo says what was stored for one member and where.
type GzipMemberInfo struct {
	Data         []byte
	Extra        []byte
	CRC32        uint32
	ISize        uint32
	XFL          int
	Start        int // offset of the member in the file
	DeflateStart int // first byte of the deflate stream
	DeflateEnd   int // one past its last byte (= offset of the CRC32 field)
	End          int
}

func BuildGzip(s GzipSpec) ([]byte, []GzipMemberInfo, error) {
	var buf bytes.Buffer
	var infos []GzipMemberInfo
	for _, m := range s.Members {
		start := buf.Len()
		w, err := gzip.NewWriterLevel(&buf, m.Level)
		if err != nil {
			return nil, nil, err
		}
		extra, _ := hex.DecodeString(m.Extra)
		w.Name = m.Name
		w.Comment = m.Comment
		if len(extra) > 0 {
			w.Extra = extra
		}
		if m.MTime != 0 {
			w.ModTime = time.Unix(int64(m.MTime), 0)
		}
		data := m.Payload.Bytes()
		if _, err := w.Write(data); err != nil {
			return nil, nil, err
		}
		if err := w.Close(); err != nil {
			return nil, nil, err
		}
		hl := 10
		if len(extra) > 0 {
			hl += 2 + len(extra)
		}
		if m.Name != "" {
			hl += len(m.Name) + 1
		}
		if m.Comment != "" {
			hl += len(m.Comment) + 1
		}
		xfl := 0
		switch m.Level {
		case gzip.BestCompression:
			xfl = 2
		case gzip.BestSpeed:
			xfl = 4
		}
		infos = append(infos, GzipMemberInfo{
			Data: data, Extra: extra, CRC32: crc32.ChecksumIEEE(data), ISize: uint32(len(data)), XFL: xfl,
			Start: start, DeflateStart: start + hl, DeflateEnd: buf.Len() - 8, End: buf.Len(),
		})
	}
	return buf.Bytes(), infos, nil
}

// ---------------------------------------------------------------------------
// zip (archive/zip)

type ZipMember struct {
	Name     string  `json:"name"`
	Method   uint16  `json:"method"` // 0 store, 8 deflate
	Mode     string  `json:"mode"`   // stream (library compresses, sizes in a data descriptor) | raw (pre-sized header, harness compresses) | rawdd (harness compresses, sizes in a data descriptor)
	Comment  string  `json:"comment,omitempty"`
	Extra    string  `json:"extra,omitempty"` // hex of well-formed extra records
	Modified int64   `json:"modified,omitempty"`
	Level    int     `json:"level"`
	Payload  Payload `json:"payload"`
}

type ZipSpec struct {
	Members []ZipMember `json:"members"`
	Comment string      `json:"comment,omitempty"`
}

type ZipMemberInfo struct {
	Name           string
	IsDir          bool
	Data           []byte
	Compressed     []byte // nil when the library compressed on the fly
	Method         uint16
	Flags          uint16
	CRC32          uint32
	CompressedSize uint64 // as recorded by the writer in the central directory
	Size           uint64
	Comment        string
	Extra          []byte // as written in the central directory (the writer may add a timestamp record)
	ModDate        uint16
	ModTime        uint16
	HasModified    bool
	Modified       int64
	Offset         int // of the local header
	DataStart      int // of the (compressed) data
	End            int // one past the member (including a data descriptor)
	DataDescriptor bool
	Streamed       bool // sizes and CRC are only in the data descriptor and the central directory
}

func deflateBytes(data []byte, level int) ([]byte, error) {
	var b bytes.Buffer
	w, err := flate.NewWriter(&b, level)
	if err != nil {
		return nil, err
	}
	if _, err := w.Write(data); err != nil {
		return nil, err
	}
	if err := w.Close(); err != nil {
		return nil, err
	}
	return b.Bytes(), nil
}

func BuildZip(s ZipSpec) ([]byte, []ZipMemberInfo, error) {
	var buf bytes.Buffer
	zw := zip.NewWriter(&buf)
	level := flate.DefaultCompression
	zw.RegisterCompressor(zip.Deflate, func(w io.Writer) (io.WriteCloser, error) {
		return flate.NewWriter(w, level)
	})
	var infos []ZipMemberInfo
	var fhs []*zip.FileHeader
	for _, m := range s.Members {
		extra, _ := hex.DecodeString(m.Extra)
		fh := &zip.FileHeader{Name: m.Name, Method: m.Method, Comment: m.Comment, Extra: extra}
		if m.Modified != 0 {
			fh.Modified = time.Unix(m.Modified, 0).UTC()
		}
		isDir := strings.HasSuffix(m.Name, "/")
		data := m.Payload.Bytes()
		if isDir {
			data = nil
		}
		info := ZipMemberInfo{Name: m.Name, IsDir: isDir, Data: data, Comment: m.Comment, HasModified: m.Modified != 0, Modified: m.Modified}
		level = m.Level
		switch m.Mode {
		case "stream":
			w, err := zw.CreateHeader(fh)
			if err != nil {
				return nil, nil, err
			}
			if !isDir {
				if _, err := w.Write(data); err != nil {
					return nil, nil, err
				}
			}
		case "raw", "rawdd":
			comp := data
			if m.Method == zip.Deflate && !isDir {
				var err error
				comp, err = deflateBytes(data, m.Level)
				if err != nil {
					return nil, nil, err
				}
			}
			if isDir {
				fh.Method = zip.Store
			}
			fh.CRC32 = crc32.ChecksumIEEE(data)
			fh.CompressedSize64 = uint64(len(comp))
			fh.UncompressedSize64 = uint64(len(data))
			if m.Mode == "rawdd" && !isDir {
				fh.Flags |= 0x8
			}
			if m.Modified != 0 {
				// CreateRaw writes the legacy fields as they are
				fh.SetModTime(fh.Modified)
				fh.Modified = time.Unix(m.Modified, 0).UTC()
			}
			if !isASCII(m.Name) || !isASCII(m.Comment) {
				fh.Flags |= 0x800
			}
			w, err := zw.CreateRaw(fh)
			if err != nil {
				return nil, nil, err
			}
			if !isDir {
				if _, err := w.Write(comp); err != nil {
					return nil, nil, err
				}
			}
			info.Compressed = comp
		default:
			return nil, nil, fmt.Errorf("unknown zip mode %q", m.Mode)
		}
		infos = append(infos, info)
		fhs = append(fhs, fh)
	}
	if err := zw.SetComment(s.Comment); err != nil {
		return nil, nil, err
	}
	if err := zw.Close(); err != nil {
		return nil, nil, err
	}
	out := buf.Bytes()
	// what the writer recorded (it fills the header structs in while writing)
	for i, fh := range fhs {
		in := &infos[i]
		in.Method = fh.Method
		in.Flags = fh.Flags
		in.CRC32 = fh.CRC32
		in.CompressedSize = fh.CompressedSize64
		in.Size = fh.UncompressedSize64
		in.Extra = fh.Extra
		in.ModDate = fh.ModifiedDate
		in.ModTime = fh.ModifiedTime
		in.DataDescriptor = fh.Flags&0x8 != 0
	}
	// layout: members are written back to back; the local header carries the
	// same extra field as the central one
	off := 0
	for i := range infos {
		in := &infos[i]
		in.Offset = off
		in.DataStart = off + 30 + len(in.Name) + len(in.Extra)
		off = in.DataStart + int(in.CompressedSize)
		if in.DataDescriptor {
			off += 16
		}
		in.End = off
		in.Streamed = in.DataDescriptor // archive/zip zeroes the local sizes whenever a descriptor follows
	}
	return out, infos, nil
}

func isASCII(s string) bool {
	for i := 0; i < len(s); i++ {
		if s[i] >= 0x80 {
			return false
		}
	}
	return true
}

// ---------------------------------------------------------------------------
// tar (archive/tar)

type TarMember struct {
	Name     string  `json:"name"`
	Type     string  `json:"type"` // "0" file, "5" dir, "2" symlink, "1" hard link, "3" char device
	Linkname string  `json:"linkname,omitempty"`
	Mode     int64   `json:"mode"`
	UID      int     `json:"uid"`
	GID      int     `json:"gid"`
	Uname    string  `json:"uname,omitempty"`
	Gname    string  `json:"gname,omitempty"`
	MTime    int64   `json:"mtime"`
	DevMajor int64   `json:"devmajor,omitempty"`
	DevMinor int64   `json:"devminor,omitempty"`
	Payload  Payload `json:"payload"`
}

type TarSpec struct {
	Format  string      `json:"format"` // ustar | pax | gnu
	Members []TarMember `json:"members"`
}

type TarMemberInfo struct {
	TarMember
	Data []byte
}

func BuildTar(s TarSpec) ([]byte, []TarMemberInfo, error) {
	var buf bytes.Buffer
	tw := tar.NewWriter(&buf)
	var f tar.Format
	switch s.Format {
	case "ustar":
		f = tar.FormatUSTAR
	case "pax":
		f = tar.FormatPAX
	case "gnu":
		f = tar.FormatGNU
	default:
		return nil, nil, fmt.Errorf("unknown tar format %q", s.Format)
	}
	var infos []TarMemberInfo
	for _, m := range s.Members {
		var data []byte
		if m.Type == "0" {
			data = m.Payload.Bytes()
		}
		h := &tar.Header{
			Typeflag: m.Type[0], Name: m.Name, Linkname: m.Linkname, Size: int64(len(data)), Mode: m.Mode,
			Uid: m.UID, Gid: m.GID, Uname: m.Uname, Gname: m.Gname, ModTime: time.Unix(m.MTime, 0),
			Devmajor: m.DevMajor, Devminor: m.DevMinor, Format: f,
		}
		if err := tw.WriteHeader(h); err != nil {
			return nil, nil, err
		}
		if len(data) > 0 {
			if _, err := tw.Write(data); err != nil {
				return nil, nil, err
			}
		}
		infos = append(infos, TarMemberInfo{TarMember: m, Data: data})
	}
	if err := tw.Close(); err != nil {
		return nil, nil, err
	}
	return buf.Bytes(), infos, nil
}
