#!/bin/sh
# builds the driver and warms the build cache; offline, from files on disk only
set -e
cd "$(dirname "$0")"
export GOFLAGS=-mod=mod GOPROXY=off GOSUMDB=off GOTOOLCHAIN=local
mkdir -p bin work evidence replays
go build -o bin/vcheck ./cmd/vcheck
for d in props/*/; do
  id=$(basename "$d")
  case "$id" in
    c18|c20) go test -c -vet=off -race -o /dev/null "./props/$id" || echo "warning: $id does not build" ;;
    *) go test -c -vet=off -o /dev/null "./props/$id" || echo "warning: $id does not build" ;;
  esac
done
echo setup ok
