module github.com/wader/fq/verif

go 1.23.0

require (
	github.com/wader/fq v0.0.0
	github.com/wader/gojq v0.12.1-0.20250208151254-0aa7b87b2c2b
	golang.org/x/crypto v0.37.0
	pgregory.net/rapid v1.3.0
)

require (
	github.com/BurntSushi/toml v1.5.0 // indirect
	github.com/creasty/defaults v1.8.0 // indirect
	github.com/golang/snappy v0.0.4 // indirect
	github.com/gomarkdown/markdown v0.0.0-20250207164621-7a1f277a159e // indirect
	github.com/gopacket/gopacket v1.3.1 // indirect
	github.com/itchyny/timefmt-go v0.1.6 // indirect
	github.com/mitchellh/copystructure v1.2.0 // indirect
	github.com/mitchellh/mapstructure v1.5.0 // indirect
	github.com/mitchellh/reflectwalk v1.0.2 // indirect
	golang.org/x/net v0.39.0 // indirect
	golang.org/x/sys v0.32.0 // indirect
	golang.org/x/text v0.24.0 // indirect
	gopkg.in/yaml.v3 v3.0.1 // indirect
)

replace github.com/wader/fq => /repo
